#!/venv/bin/python
"""Harvest a sub-agent's seeded change from /tmp/seed/<W>/SEED, verify it against the current /repo HEAD in a
scratch worktree (applies, suite still 513/513, demo fails with / passes without), store it as seeded/<name>/.
usage: tools/seed_harvest.py <worktree-name e.g. C05> <seed-name e.g. C05-uid-expunge-key> <property> [--skip-suite]"""
import json, os, shutil, subprocess, sys, glob, time
ROOT = os.path.dirname(os.path.dirname(os.path.abspath(__file__)))
wt, name, prop = sys.argv[1:4]
skip_suite = "--skip-suite" in sys.argv
src = f"/tmp/seed/{wt}/SEED"
dst = os.path.join(ROOT, "seeded", name)
os.makedirs(dst, exist_ok=True)
if "--no-copy" not in sys.argv:  # (a patch rebased by hand onto the current HEAD is already in place)
    for f in os.listdir(src):
        if os.path.isfile(os.path.join(src, f)) and os.path.getsize(os.path.join(src, f)) < 200000:
            shutil.copy(os.path.join(src, f), os.path.join(dst, f))
patch = os.path.join(dst, "patch.diff")
scratch = f"/tmp/seedverify-{name}"
subprocess.run(["git", "-C", "/repo", "worktree", "remove", "--force", scratch], capture_output=True)
subprocess.run(["git", "-C", "/repo", "worktree", "add", "-q", "--detach", scratch, "HEAD"], check=True)
rec = {"property": prop, "name": name, "verified_against": subprocess.run(["git", "-C", "/repo", "rev-parse", "--short", "HEAD"], capture_output=True, text=True).stdout.strip()}
try:
    cp = subprocess.run(["git", "-C", scratch, "apply", "--check", patch], capture_output=True, text=True)
    rec["applies_to_head"] = cp.returncode == 0
    if cp.returncode != 0:
        rec["apply_error"] = cp.stderr[-400:]
        print("PATCH DOES NOT APPLY", cp.stderr[-400:])
    else:
        demos = sorted(glob.glob(os.path.join(dst, "demo_*.py")))
        def run_demo(tag):
            out = {}
            for d in demos:
                is_pytest = "def test_" in open(d).read()
                if is_pytest:
                    where = (scratch,) if "pytest_plugins" in open(d).read() else (scratch, "asimap", "test")
                    target = os.path.join(*where, "test_seed_" + os.path.basename(d))
                    cmd = ["/venv/bin/python", "-m", "pytest", "-q", "-p", "no:cacheprovider", "--timeout=600", target]
                else:
                    target = os.path.join(scratch, "seed_" + os.path.basename(d))
                    cmd = ["/venv/bin/python", target]
                shutil.copy(d, target)
                cp = subprocess.run(cmd, cwd=scratch, capture_output=True, text=True, env=dict(os.environ, PYTHONPATH=scratch))
                out[os.path.basename(d)] = {"rc": cp.returncode, "tail": (cp.stdout.strip().splitlines() or cp.stderr.strip().splitlines() or [""])[-1][-300:]}
                os.unlink(target)
            return out
        rec["demo_without_change"] = run_demo("without")
        subprocess.run(["git", "-C", scratch, "apply", patch], check=True)
        rec["demo_with_change"] = run_demo("with")
        if not skip_suite:
            t0 = time.time()
            cp = subprocess.run([os.path.join(ROOT, "tools", "baseline_check.py"), scratch], capture_output=True, text=True)
            lines = cp.stdout.strip().splitlines()
            rec["suite_with_change"] = {"rc": cp.returncode, "summary": lines[:1] + lines[-1:], "missing": [l for l in lines if l.startswith("MISSING")], "wall_s": round(time.time() - t0)}
            if cp.returncode != 0:
                # tests that bind real sockets flake when several suites run at once: re-run the missing ones alone
                ids = [l.split(" ", 1)[1] for l in lines if l.startswith("MISSING")]
                nodeids = [i.rsplit("::", 1)[0].replace(".", "/") + ".py::" + i.rsplit("::", 1)[1] for i in ids]
                cp2 = subprocess.run(["/venv/bin/python", "-m", "pytest", "-q", "-p", "no:cacheprovider", "--timeout=900"] + nodeids, cwd=scratch, capture_output=True, text=True)
                rec["suite_with_change"]["missing_rerun_alone"] = {"rc": cp2.returncode, "tail": cp2.stdout.strip().splitlines()[-1:]}
finally:
    subprocess.run(["git", "-C", "/repo", "worktree", "remove", "--force", scratch], capture_output=True)
    shutil.rmtree(scratch, ignore_errors=True)
json.dump(rec, open(os.path.join(dst, "verification.json"), "w"), indent=1)
print(json.dumps(rec, indent=1))
