#!/bin/sh
# Evaluate every seeded change against the check of its own property, the literal way: git -C /repo apply, run, checkout.
# usage: tools/seed_sweep.sh   (nothing else may use /repo meanwhile); summary on stdout, details in seeded/*/detection.json
cd "$(dirname "$0")/.."
for d in seeded/*/; do
  n=$(basename "$d")
  [ -f "$d/meta.json" ] || continue
  p=$(/venv/bin/python -c "import json,sys;print(json.load(open('$d/meta.json'))['property'])")
  tools/seeded_eval.py "$n" "$p" 2>&1 | cut -c1-160
done
