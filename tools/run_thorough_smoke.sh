#!/bin/sh
# thorough tier of every check, cheapest first (a smoke run for `vp run`; evidence written here is not committed)
cd "$(dirname "$0")/.."
for id in C08 C09 C14 C15 C18 C11 C19 C07 C16 C05 C06 C17 C12 C02 C03 C04 C13 C20 C01 C10; do
  S=$(date +%s)
  VF_NO_EVIDENCE=1 ./vcheck $id --tier thorough > /tmp/vthorough-$id.log 2>&1; RC=$?
  E=$(date +%s)
  echo "$id rc=$RC $((E-S))s $(grep -c '^VIOLATION' /tmp/vthorough-$id.log) violations $(grep '^VIOLATION\|HARNESS' /tmp/vthorough-$id.log | head -2 | cut -c1-200)"
done
