#!/venv/bin/python
"""Apply a seeded change to /repo, run the given checks (quick tier), undo the change.
usage: tools/seeded_eval.py <seed-dir-name> [check ids...]   (default: the property the seed is for)
Prints one line per check: DETECTED (exit 1 + VIOLATION line) / missed (exit 0) / broken (other)."""
import json, os, subprocess, sys, time
ROOT = os.path.dirname(os.path.dirname(os.path.abspath(__file__)))
name = sys.argv[1]
d = os.path.join(ROOT, "seeded", name)
meta = json.load(open(os.path.join(d, "meta.json")))
checks = sys.argv[2:] or [meta["property"]]
patch = os.path.join(d, "patch.diff")
st = subprocess.run(["git", "-C", "/repo", "status", "--porcelain"], capture_output=True, text=True).stdout.strip()
if st:
    sys.exit("refusing: /repo working tree is not clean:\n" + st)
subprocess.run(["git", "-C", "/repo", "apply", patch], check=True)
results = {}
try:
    for c in checks:
        t0 = time.time()
        cp = subprocess.run([os.path.join(ROOT, "vcheck"), c, "--tier", os.environ.get("SEED_TIER", "quick"), "--no-recheck"], capture_output=True, text=True, cwd=ROOT,
                            env=dict(os.environ, VF_NO_EVIDENCE="1"))
        viol = [l for l in cp.stdout.splitlines() if l.startswith("VIOLATION")]
        verdict = "DETECTED" if cp.returncode == 1 and viol else ("missed" if cp.returncode == 0 else f"broken(rc={cp.returncode})")
        results[c] = {"verdict": verdict, "violations": len(viol), "wall_s": round(time.time() - t0, 1),
                      "first": (viol[0][:300] if viol else (cp.stdout + cp.stderr)[-300:] if verdict.startswith("broken") else "")}
        print(f"{name} {c}: {verdict} ({len(viol)} violation lines, {results[c]['wall_s']}s) {results[c]['first'][:200]}")
finally:
    subprocess.run(["git", "-C", "/repo", "checkout", "--", "."], check=True)
    subprocess.run(["git", "-C", "/repo", "clean", "-fdq", "asimap"], check=False)
out = os.path.join(d, "detection.json")
prev = json.load(open(out)) if os.path.exists(out) else {}
prev.update(results)
json.dump(prev, open(out, "w"), indent=1)
