#!/venv/bin/python
"""Apply a seeded change to /repo, run the given checks (quick tier), undo the change.
usage: tools/seeded_eval.py [--worktree] <seed-dir-name> [check ids...]   (default: the property the seed is for)
--worktree: while a long background run is reading /repo, apply the change to a scratch worktree of /repo HEAD
            instead and point the checks at it (ASIMAP_SRC); recorded as mode=worktree in detection.json.
Prints one line per check: DETECTED (exit 1 + VIOLATION line) / missed (exit 0) / broken (other)."""
import json, os, subprocess, sys, time
ROOT = os.path.dirname(os.path.dirname(os.path.abspath(__file__)))
WT = "--worktree" in sys.argv
if WT:
    sys.argv.remove("--worktree")
name = sys.argv[1]
d = os.path.join(ROOT, "seeded", name)
meta = json.load(open(os.path.join(d, "meta.json")))
checks = sys.argv[2:] or [meta["property"]]
patch = os.path.join(d, "patch.diff")
SRC = "/repo"
if WT:
    SRC = f"/tmp/seedeval-{name}"
    subprocess.run(["git", "-C", "/repo", "worktree", "remove", "--force", SRC], capture_output=True)
    subprocess.run(["git", "-C", "/repo", "worktree", "add", "-q", "--detach", SRC, "HEAD"], check=True)
st = subprocess.run(["git", "-C", SRC, "status", "--porcelain"], capture_output=True, text=True).stdout.strip()
if st:
    sys.exit(f"refusing: {SRC} working tree is not clean:\n" + st)
subprocess.run(["git", "-C", SRC, "apply", patch], check=True)
results = {}
try:
    for c in checks:
        t0 = time.time()
        cp = subprocess.run([os.path.join(ROOT, "vcheck"), c, "--tier", os.environ.get("SEED_TIER", "quick"), "--no-recheck"], capture_output=True, text=True, cwd=ROOT,
                            env=dict(os.environ, VF_NO_EVIDENCE="1", ASIMAP_SRC=SRC))
        viol = [l for l in cp.stdout.splitlines() if l.startswith("VIOLATION")]
        verdict = "DETECTED" if cp.returncode == 1 and viol else ("missed" if cp.returncode == 0 else f"broken(rc={cp.returncode})")
        results[c] = {"verdict": verdict, "mode": "worktree" if WT else "repo", "violations": len(viol), "wall_s": round(time.time() - t0, 1),
                      "first": (viol[0][:300] if viol else (cp.stdout + cp.stderr)[-300:] if verdict.startswith("broken") else "")}
        print(f"{name} {c}: {verdict} ({len(viol)} violation lines, {results[c]['wall_s']}s) {results[c]['first'][:200]}")
finally:
    if WT:
        subprocess.run(["git", "-C", "/repo", "worktree", "remove", "--force", SRC], check=False)
    else:
        subprocess.run(["git", "-C", "/repo", "checkout", "--", "."], check=True)
        subprocess.run(["git", "-C", "/repo", "clean", "-fdq", "asimap"], check=False)
out = os.path.join(d, "detection.json")
prev = json.load(open(out)) if os.path.exists(out) else {}
prev.update(results)
json.dump(prev, open(out, "w"), indent=1)
