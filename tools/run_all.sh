#!/bin/sh
# run every registered check once (quick by default); usage: tools/run_all.sh [quick|thorough] [seed]
cd "$(dirname "$0")/.."
TIER="${1:-quick}"; SEED="${2:-0}"
for id in $(/venv/bin/python -c "import json;print(' '.join(c['property_id'] for c in json.load(open('MANIFEST.json'))['checks']))"); do
  S=$(date +%s)
  VERIF_SEED=$SEED ./vcheck $id --tier $TIER > /tmp/vcheck-$id.log 2>&1; RC=$?
  E=$(date +%s)
  echo "$id rc=$RC $((E-S))s $(grep -c '^VIOLATION' /tmp/vcheck-$id.log) violations, $(grep -c '^KNOWN-FINDING' /tmp/vcheck-$id.log) known"
done
