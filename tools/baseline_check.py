#!/venv/bin/python
"""Run the repository's pinned suite (guard off -- there are no source hooks) and compare with
/root/.vp/BASELINE.json: every stable_pass test must pass.  Exit 0 iff so."""
import json, os, subprocess, sys, tempfile
import xml.etree.ElementTree as ET

repo = sys.argv[1] if len(sys.argv) > 1 else "/repo"
base = json.load(open("/root/.vp/BASELINE.json"))
fd, junit = tempfile.mkstemp(suffix=".xml")
os.close(fd)
env = dict(os.environ)
env.pop("ASIMAP_VERIF", None)
cmd = ["/venv/bin/python", "-m", "pytest", "-ra", "-q", "-p", "no:cacheprovider", "--timeout=900",
       "--continue-on-collection-errors", f"--junitxml={junit}"]
cp = subprocess.run(cmd, cwd=repo, env=env, capture_output=True, text=True)
passed = set()
for tc in ET.parse(junit).getroot().iter("testcase"):
    if not any(ch.tag in ("failure", "error", "skipped") for ch in tc):
        passed.add(f"{tc.get('classname')}::{tc.get('name')}")
os.unlink(junit)
missing = [t for t in base["stable_pass"] if t not in passed]
print(f"passed={len(passed)} stable_pass={len(base['stable_pass'])} missing={len(missing)}")
for t in missing[:40]:
    print("MISSING", t)
print(cp.stdout.strip().splitlines()[-1] if cp.stdout.strip() else cp.stderr[-500:])
sys.exit(1 if missing else 0)
