#!/venv/bin/python
"""Write seeded/<name>/meta.json.  usage: tools/seed_meta.py <name> <property> <summary> <needs>"""
import json, os, sys
ROOT = os.path.dirname(os.path.dirname(os.path.abspath(__file__)))
name, prop, summary, needs = sys.argv[1:5]
d = os.path.join(ROOT, "seeded", name)
ver = json.load(open(os.path.join(d, "verification.json"))) if os.path.exists(os.path.join(d, "verification.json")) else {}
meta = {"property": prop, "breaks": summary, "needs_to_manifest": needs,
        "origin": "written by a fresh sub-agent given only the property text and a scratch worktree (see NOTES.md)",
        "what_was_run": ["tools/seed_harvest.py: git apply --check on /repo HEAD in a scratch worktree; demonstration without the change (passes) and with it (fails); "
                         "pinned suite with the change via tools/baseline_check.py (513 stable tests pass) -- results in verification.json",
                         "tools/seeded_eval.py: git -C /repo apply patch.diff; ./vcheck <checks>; git -C /repo checkout -- .  -- results in detection.json"],
        "verification": ver}
json.dump(meta, open(os.path.join(d, "meta.json"), "w"), indent=1)
