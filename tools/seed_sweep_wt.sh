#!/bin/sh
# Like seed_sweep.sh, but every change is applied to a scratch worktree of /repo HEAD (so /repo itself stays usable): meant for `vp run`.
cd "$(dirname "$0")/.."
for d in seeded/*/; do
  n=$(basename "$d")
  [ -f "$d/meta.json" ] || continue
  p=$(/venv/bin/python -c "import json,sys;print(json.load(open('$d/meta.json'))['property'])")
  tools/seeded_eval.py --worktree "$n" "$p" 2>&1 | cut -c1-200
done
