#!/venv/bin/python
"""Generate MANIFEST.json from the table below (kept in one place so it is always valid)."""
import json, os
ROOT = os.path.dirname(os.path.dirname(os.path.abspath(__file__)))
BASELINE = json.load(open("/root/.vp/BASELINE.json"))

CHECKS = {
 "C15": dict(cat="exploration", engine="E-input-enumeration", tech="bounded exhaustive input enumeration against a reference model",
   text="Every sequence set of <=k elements over {0..max+1,*} and all ranges (both orders) is executed in each of 13 command forms "
        "(FETCH, STORE, COPY, MOVE, SEARCH <set>, SEARCH UID <set>, and the UID forms incl. UID EXPUNGE) on real mailboxes of N<=4 (quick) / "
        "N<=5 (thorough) messages with dense and sparse UID layouts; the set of messages touched/returned must equal an independent denotation. "
        "The space is finite and fully enumerated, which is the right level for a property quantified over inputs.",
   note="Trusted: the virtual event loop and seams (vf/simloop.py, vf/seams.py), the reference denotation (vf/refmodel/sets.py), the "
        "independent response tokenizer. Single session, default schedule. Effects of COPY/MOVE/EXPUNGE observed on the MH folder on disk.",
   ref="DESIGN.md section 4 C15"),
}
H_NOTE = ("Trusted: the virtual event loop and seams (vf/simloop.py, vf/seams.py), the reference store (vf/refmodel/store.py), the stream monitor "
          "(vf/hdriver.py) and the independent response tokenizer (vf/respparse.py). Commands are strictly sequential (default schedule); "
          "schedules are explored separately by the S engine. Depth-bounded: histories longer than the bound are not covered.")
def H(pid, text, tech="explicit-state BFS over operation histories of the real server, reference-model and stream-replay oracles"):
    return dict(cat="model_checking", engine="H-history-bfs", tech=tech, text=text, note=H_NOTE, ref=f"DESIGN.md section 4 {pid}")
CHECKS.update({
 "C01": H("C01", "All command histories up to the stated depth over a 2-session alphabet (SELECT/EXAMINE, APPEND, STORE, EXPUNGE, UID EXPUNGE, COPY, MOVE, CLOSE, "
          "IDLE/DONE, NOOP, CHECK, probes, external delivery, idle time) are executed on the real server; every untagged EXISTS/EXPUNGE/FETCH each session "
          "is sent is replayed into a per-session view and checked for legality, binding (sequence number <-> UID) and flush equality with the reference store. "
          "Exhaustive within depth and alphabet, which is what a property over all histories admits."),
 "C02": H("C02", "All histories up to the depth bound over append/copy/move/expunge/delivery/pack/restart/create/delete/rename; a ledger of every (mailbox, "
          "UIDVALIDITY, UID) -> content ever revealed must remain a function, UIDs ascend, every announced UIDNEXT exceeds every assigned UID and never "
          "decreases, APPENDUID/COPYUID are fetched back, UIDVALIDITY is constant per incarnation and larger after DELETE+CREATE."),
 "C03": H("C03", "All histories up to the depth bound mixing expunge of subsets, appends, copies, deliveries, pack, rename and restart with a second session "
          "probing every position by sequence number and by UID: content id and INTERNALDATE per (mailbox, UIDVALIDITY, UID) never change and sequence "
          "number <-> UID <-> content stays a bijection at every command boundary."),
 "C04": H("C04", "Every history of length <=2 (thorough: also length 3 over a narrower alphabet) over a wide STORE/FETCH/APPEND/COPY/SEARCH alphabet with "
          "system flags and keywords, from two sessions and several initial flag assignments; every FLAGS value sent, the per-session flag knowledge at "
          "synchronisation points, the final FETCH FLAGS and the Seen/unseen complement are compared with the reference model."),
 "C13": H("C13", "All histories up to the depth bound in which an external MH delivery agent (plain os calls) drops seen/unseen messages, singly and in batches, "
          "between IMAP commands of selected, idling and unselected sessions; IMAP side: announced at the next sync point as new last messages with fresh UIDs "
          "and the agent's flags; MH side: .mh_sequences parsed by stdlib mailbox.MH mentions no removed message and equals the IMAP flags."),
 "C05": dict(cat="exploration", engine="E-input-enumeration", tech="bounded exhaustive input enumeration against a reference model, plus a small history BFS",
   text="Every cell of (N<=3/4, every \\Deleted subset, read-write/EXAMINE, EXPUNGE/UID EXPUNGE/CLOSE/MOVE/COPY/COPY-to-self/APPEND, 7 set shapes incl. duplicates and "
        "non-existent UIDs) is executed from a freshly prepared state and the whole observable store (content ids, flags, dates per mailbox) is compared with the model; "
        "a refused command must leave the folder tree and database rows byte-identical. A depth-3/4 BFS composes such commands from two sessions.",
   note=H_NOTE, ref="DESIGN.md section 4 C05"),
})
CHECKS["C10"] = dict(cat="model_checking", engine="S-schedule-dfs", tech="stateless deviation-bounded schedule exploration of the real server + linearizability check against a sequential reference model",
   text="For 28 (thorough: 34) scenarios of 2-3 sessions issuing colliding commands, every schedule of I/O completions, timers and command arrivals with <=2 (thorough: up to 3) "
        "deviations from the default schedule is executed on the real server. Every command must be answered (no deadlock/starvation/watchdog), the results and final mailbox "
        "contents must equal some sequential order of the commands' documented steps, and every session's replayed untagged stream must stay legal while commands overlap.",
   note="Trusted: the virtual loop's notion of an atomic external operation (executor job / DB statement executed and completed at one scheduling point, DB channel FIFO), "
        "the sequential reference (vf/refmodel/linear.py, store.py), the response tokenizer. Real OS-thread races inside aiosqlite/aiofiles are outside the cooperative scheduler.",
   ref="DESIGN.md section 4 C10")
CHECKS["C12"] = H("C12", "For every history up to the depth bound the state is observed through the protocol, the server is restarted in an orderly way (shutdown()+start-up, and the real "
   "run() loop's exit after 30 virtual minutes without clients followed by a relaunch) and observed again; the two observations (LIST/LSUB, UIDVALIDITY, UIDNEXT, UIDs, content ids, "
   "flags mod \\Recent, subscription, STATUS) must be equal. Differential: no hand-written expected values.",
   tech="explicit-state BFS over operation histories with a differential restart oracle")
CHECKS["C11"] = dict(cat="fault_enumeration", engine="K-crash-enumeration", tech="exhaustive crash-point enumeration (every DB operation and folder mutation) with real re-boot of every distinct on-disk state",
   text="14 representative histories (thorough: also every history of length <=3 over a 8-command alphabet) are run on the real server with a crash point before and after every "
        "database operation and every audited file-system mutation under the maildir (incl. the instant right after .mh_sequences is truncated). Every distinct on-disk state is booted "
        "with the real start-up path and interrogated: start-up succeeds, every mailbox selects, acknowledged messages/expunges/flag changes hold, revealed (UIDVALIDITY, UID) pairs "
        "keep their content, UIDNEXT stays above every revealed UID.",
   note="Process death (kill -9) at Python-call / DB-operation granularity; not power loss, no torn sectors; SQLite's own atomicity is trusted. sys.setprofile c_return is used to reach "
        "the state right after a C call returns. Default schedule, one session.",
   ref="DESIGN.md section 4 C11")
CHECKS["C17"] = H("C17", "All histories up to the depth bound of CREATE/DELETE/RENAME/SUBSCRIBE/UNSUBSCRIBE/SELECT/APPEND/RESTART over a 10-name alphabet (nesting 3, space, '+', '[ ]', "
   "inbox/s, a SPECIAL-USE name); after every history LIST and LSUB for 14 (reference, pattern) pairs are compared with a namespace model whose wildcard matching is written "
   "from the definition, mailboxes are probed for selectability, renamed subtrees are compared message by message, and a refused command must leave folder tree and database identity rows unchanged.")
CHECKS["C20"] = H("C20", "All histories up to the depth bound of a POP3 session (STAT, LIST, LIST n, UIDL, RETR, TOP, DELE valid/invalid/repeated, RSET, QUIT, dropped connection) "
   "through the real POP3ClientProxy interleaved with IMAP append / expunge-first / expunge-last / move / pack on the same INBOX, with bodies containing dot lines, a lone dot and no final newline. "
   "Numbers, sizes and UIDL values stay fixed, UIDL = IMAP UIDs at login, RETR never delivers another message, announced size = un-stuffed octets delivered, "
   "replies are correctly stuffed and terminated, only a QUIT removes exactly the marked messages.")
E_NOTE = "Trusted: the generators and reference models named in the text, the virtual loop and seams where a server is involved, the independent response tokenizer. Bounded input spaces as stated in the evidence."
def E(pid, text, tech="bounded exhaustive input enumeration against a reference model"):
    return dict(cat="exploration", engine="E-input-enumeration", tech=tech, text=text, note=E_NOTE, ref=f"DESIGN.md section 4 {pid}")
CHECKS["C08"] = E("C08", "Every sentence of a bounded command grammar (all commands and UID forms, astrings as atom/quoted-with-escapes/literal/literal+, sequence sets, flag lists, "
   "25 fetch items with sections and partials, search keys nested to depth 2/3, LIST-EXTENDED, APPEND with flags/date/literal) is generated with its meaning and must be accepted, "
   "fully consumed and decoded to that meaning by the real parser; every truncation and single-point edit (thorough: double edits of short sentences) of the core sentences must parse "
   "or raise BadCommand; rejected sentences replayed through the real IMAPClientProxy.run() must get BAD and leave the connection usable.",
   tech="grammar-directed exhaustive sentence generation + exhaustive single-edit mutation decided against an independent recogniser of the command grammar")
CHECKS["C09"] = E("C09", "Every path of <=3 (thorough: <=4) components over {.., ., '', a, inbox, decoy, secret} with prefixes {'', '/', '//'} in atom/quoted/literal encoding is put into "
   "every mailbox-name position of 27 commands (incl. LIST/LSUB reference and patterns with wildcards) on a jail whose neighbour folder holds token-tagged mail; everything outside the "
   "mail root must stay byte-identical, no response may carry the neighbour's content, counts or names, names with no inside reading must be refused, no DB row may name an outside path.")
CHECKS["C14"] = E("C14", "Every program k, NOT k, OR k k', (k k') over ~90 atomic search keys (every flag key, KEYWORD/UNKEYWORD, LARGER/SMALLER around three sizes, the six date keys around "
   "three days, header/body/text needles present/absent/mixed-case, UID and sequence sets) - thorough: three 3-level shapes over a sub-alphabet - is run as SEARCH and UID SEARCH on "
   "three 5-message corpora; results must equal an independent evaluator over facts the same session was shown, and UID SEARCH must be SEARCH mapped through the UID table.")
CHECKS["C16"] = E("C16", "Every message built from <=2 (thorough: <=3) of 35 feature deviations (header encodings, folded/empty/2 kB/missing fields, address forms, nested multiparts, message/rfc822, "
   "parameter encodings, empty/LF/8-bit/dotted/long bodies) is stored by APPEND and dropped raw by the MH agent, plus the 27 fixture messages; RFC822.SIZE = |BODY[]|, HEADER+TEXT = BODY[], "
   "RFC822* = BODY[...] forms, 15 partial ranges per message, repeated fetch identical, CRLF line ends, APPEND round trip of header fields and body, COPY byte-identical.")
CHECKS["C07"] = E("C07", "The independent RFC 3501 response tokenizer runs over every byte sent while every message shape (as C16) is fetched with ENVELOPE, BODYSTRUCTURE, BODY, sections, header-field lists, "
   "INTERNALDATE and FLAGS; decoded ENVELOPE strings must give back the header values; mailbox names/keywords with quotes, backslashes, 8-bit, wildcards, brackets go through LIST/LSUB/STATUS/SELECT; "
   "error paths echo hostile input (CR LF, quotes, 300 octets). The same tokenizer also runs inside every other check.")
CHECKS["C18"] = dict(cat="model_checking", engine="H-history-bfs", tech="explicit-state BFS of the real login throttle against a reference automaton + exhaustive pre-authentication command matrix",
   text="Throttle: breadth-first search to depth 6 (thorough 8) from three start states where every transition is a real LOGIN or POP3 USER/PASS through the front-end for "
        "(3 users x 2 addresses x good/bad password) or a clock advance of 1/30/59/61 s; states are the implementation's failure tables relative to now; a reference automaton driven by "
        "the same virtual timestamps must allow every observed answer. Gate: every IMAP command (incl. UID forms) and POP3 command in six pre-authentication states must neither request a "
        "user-process connection, relay bytes, nor return mailbox data; LOGIN / USER+PASS for every (account kind x password variant x encoding) succeed iff usable account and exact password.",
   note="No TLS, sockets or real subprocess; accounts hashed with PBKDF2-SHA1/1 iteration; at exactly 60 s either answer is accepted. Trusted: vf/frontend.py stubs, the reference automaton in vf/props/c18.py.",
   ref="DESIGN.md section 4 C18")
CHECKS["C19"] = E("C19", "Every sequence of <=2 (thorough: <=3) items from a 15-item menu (plain command, empty line, one/two synchronising literals, non-synchronising literal, literal that looks like a command, "
   "literal ending in '{5}', over-limit literal sync/non-sync (also with CR LF inside), over-limit line, over-limit accumulated command) is sent to the real front-end reader under every segmentation of a stretch "
   "into reads with <=2 cut points, the scripted client waiting for '+' or BAD as RFC 3501/7888 require; frames relayed, '+' and BAD counts and being in sync afterwards must equal a reference tokenizer's. "
   "Response streams with CRLF-free runs around the 128 KiB stream limit must reach the client byte for byte.",
   tech="exhaustive enumeration of item sequences and read segmentations against a reference tokenizer")
CHECKS["C06"] = dict(cat="model_checking", engine="S-schedule-dfs", tech="exhaustive command x argument x mailbox-state x session-state matrix on the real server + deviation-bounded schedule exploration of DELETE/RENAME races",
   text="Every cell of (10 set-up histories incl. pending EXPUNGE, orphaned session, \\Noselect live and after restart, idling) x (260 command forms incl. UID forms, 10 message-set shapes, "
        "9 mailbox names, RENAME/LIST/APPEND variants, malformed representatives) is executed through the real IMAPClientProxy.run() on a fresh server: exactly one tagged reply with the "
        "command's tag, after all untagged data, within 5 virtual seconds and never by the watchdog, NOOP answered afterwards unless BYE was sent. Six DELETE/RENAME-versus-queued-command "
        "scenarios are explored over all schedules with <=1 (thorough 2) deviations.",
   note=E_NOTE, ref="DESIGN.md section 4 C06")
NOT_YET = {}

# additions made while the checks were strengthened against seeded changes (DESIGN.md section 7, seeded/README.md)
EXTRA = {
 "C07": " Third session: shapes with quotes in media types / dispositions, empty and two-@ address fields; HEADER.FIELDS labels with string names; commands that find nothing (fixed-shape response codes are validated); a history part: ENVELOPE / BODYSTRUCTURE describe the message the model expects at that UID after messages go and come. Fourth session: a plan in which the leaf a/b is subscribed and its UIDVALIDITY seen (DELETE keeps a subscribed mailbox as a place holder; created again it must come back with a larger UIDVALIDITY). Fourth session: a narrow plan deep enough for expunge, pack, restart, look with nothing arriving in between. Fourth session: a plan in which flags are taken off between two restarts (the mailbox is loaded from the database, changed, loaded again). Fourth session: names also go through LIST-EXTENDED selection / return options and LIST ... RETURN (STATUS ..) (names decoded from LIST and STATUS lines); shapes with an empty multipart boundary, no header fields at all, an encoded word decoding to CR LF in a display name.",
 "C01": " A second BFS starts from a state where a quiet session holds a pending EXPUNGE; a schedule part runs eight two-session scenarios (re-SELECT, EXPUNGE/MOVE against "
        "FETCH incl. a slow reader) under every schedule with <=2 (thorough 2-3) deviations and reports the stream rules. Third session: two more scenarios have a slow reader at a flush point that does not queue on the mailbox (CAPABILITY, LSUB) while another session expunges.",
 "C02": " A second, deeper BFS runs over a six-event core alphabet (messages go, come, pack, restart); deliveries also go into a mailbox nobody has selected. Third session: a delivery within the second of the folder's mtime followed by idle time (pack opportunity) is an event; schedule scenarios CREATE | CREATE with epilogues (DELETE n1; RENAME n2 n1 / restart, delete and create again) decide that no (name, UIDVALIDITY) pair names two incarnations.",
 "C03": " A deeper BFS over a six-event core alphabet and a schedule part (UID FETCH / FETCH overlapping another session's EXPUNGE / CLOSE, incl. slow readers) complete the check. Third session: RENAME INBOX and the same-second-delivery + idle event are in the alphabet; a refused UID FETCH is a failure; messages moved by RENAME INBOX keep their internal date.",
 "C04": " A second, deeper BFS over a narrow 'toggling' alphabet (one session flips flags while the other stays quiet, polls or looks); \\Recent is checked by three necessary "
        "conditions (never comes back on the wire or in .mh_sequences, unchanged by STORE). Third session: system flags in other letter case, keywords an MH folder cannot hold (':' / non-ASCII: refused without effect or stored), and an INBOX(4) plan with flag changes around an EXPUNGE that renumbers while the other session is quiet. A schedule part (flag changes against IDLE entry / exit of a slow reader, STORE | STORE, STORE | FETCH BODY[]): after its NOOP a session's last FLAGS value per message is the current one.",
 "C05": " The matrix is repeated from start states in which MH keys and UIDs differ (the former top message expunged before two more arrived). Third session: a schedule part (COPY | EXPUNGE, MOVE | MOVE, COPY into the own mailbox | STORE, opposite COPYs) under every schedule with <=2 deviations: final contents and flags sequential. The reference no longer lets a non-UID COPY / MOVE read its numbers in the renumbered view; internal dates shown during a COPY are the final ones.",
 "C06": " Schedule part: DELETE/RENAME races and commands that do not touch messages (SUBSCRIBE, EXAMINE, CREATE child ...) sent while another session's FETCH is in progress. Third session: cells for commands sent while IDLE is active without DONE first, and for keywords the store cannot hold. Long part: four commands that make steady progress for more than 120 s (a peer taking 1.8 s per response on INBOX(70)) must be answered by themselves, not by the watchdog; before-login part: 17 commands through the front-end, each gets exactly one tagged reply.",
 "C08": " Every string over {1,7,2,:,*,','} up to length 5 (thorough 6) is put in nine message-set positions and decided by an independent recogniser of the RFC 3501 sequence-set grammar. Third session: differential acceptance -- every truncation / single edit of every quick-grammar sentence (2.2 million) is also read by an independent recogniser of the whole command grammar (vf/refmodel/cmdgrammar.py): in the language <=> accepted, with the same meaning. The run-loop part also sends rejected lines as the first line of a connection (incl. the POP3 front-end's marker word).",
 "C09": " Names built from the jail's own absolute path and names reaching a sibling whose name starts with the mail directory's name are added; every name runs through two command "
        "orders (probing first / creating its inside reading first). Third session: existence oracle -- every escaping name is also run with a twin of equal length whose outside components do not exist; all responses must be identical. Fourth session: the sibling-directory names with a blank / TAB / VT before or after them (names a strip() after the containment check would turn into the sibling's path).",
 "C10": " Scenarios include slow readers (writer.drain() parked), a reader parked mid-FETCH as a start state, re-SELECT races, three sessions; client inputs postponed by one deviation "
        "stay postponed; every COPYUID destination UID must hold the source's content. Third session: COPY into the own mailbox vs STORE (thorough: MOVE variant, three-session opposite COPYs + STORE); slow readers at CAPABILITY / LSUB. IDLE / DONE are commands of the schedule engine; scenarios with an idling slow reader while sessions join / leave, STORE \\Deleted | EXPUNGE | NOOP, RENAME | SELECT | SELECT of an inactive mailbox, COPY | internal-date reads in the destination (sticky I/O operations).",
 "C11": " Quick tier: 17 histories incl. mailboxes emptied completely, plus every ordered pair of a 9-command alphabet after the client has learnt all UIDs. Third session: CREATE | CREATE under every schedule with <=1 (thorough 2) deviations, kill, restart, delete and create each name again: larger UIDVALIDITY. After every recovery the next APPEND to each mailbox must get a UID no client has seen; histories in which every message leaves at once and new ones reuse the numbers. Fourth session: every snapshot that passes is booted once more with an MH delivery made while the server is down (the delivered message may not inherit a revealed UID).",
 "C12": " A second, deeper BFS over an eight-event core alphabet (append, expunge, keywords, RENAME INBOX, DELETE/CREATE of a parent, SUBSCRIBE). Schedule part: SUBSCRIBE / APPEND while another session activates the mailbox (<=2 deviations), then orderly restart: LSUB, LIST and STATUS of every mailbox unchanged.",
 "C13": " Same-second deliveries (folder mtime unchanged) are composite events; a schedule part fires the delivery at every scheduling point inside STORE / FETCH / APPEND / COPY / "
        "EXPUNGE / NOOP and into the destination of a running COPY / MOVE. Third session: the agent files messages under further MH sequences (flagged, replied, Draft); a plan with the pack threshold lowered (deliveries around a pack). The MH-side oracle parses .mh_sequences itself (stdlib get_sequences() hides stale keys) and covers \\Noselect placeholders; a plan with DELETE-to-placeholder / CREATE / RENAME INBOX followed by deliveries that reuse the numbers.",
 "C14": " The corpus has Date headers that fall on another day in UTC, an empty header field, and empty search strings. Third session: a corpus message with a repeated header field. Fourth session: a history part -- every sequence of 3 (thorough 4) mailbox-changing steps (expunge last / first, APPEND with two dates, flag changes); after every step ~19 programs over the FETCH-visible keys are judged on fresh facts; keywords spelled like MH sequence names.",
 "C16": " A history part evaluates the equations on every state of a depth-4/5 BFS (sizes asked, messages expunged, numbers reused, folder packed); partials are probed beyond the "
        "item's end and on HEADER/TEXT/parts; a section menu is fetched for every shape. Third session: RENAME INBOX and header/ENVELOPE fetches in the history alphabet. Fourth session: shapes with an empty multipart boundary and with no header fields at all (a text with an empty line of its own).",
 "C17": " A second, deeper BFS over an eight-event core alphabet; names behind the namespace prefix and names with all-digit components; LSUB attributes and the advertised "
        "LIST-EXTENDED forms (SUBSCRIBED selection, RETURN SUBSCRIBED/CHILDREN/STATUS) are compared too. Third session: a plan over look-alike names (a_b / axb / axb/k: SQL LIKE wild cards; letter case; w / w/x / w-old: names sorting below '/'). Mixed-case INBOX patterns with wild cards in the LIST / LSUB menu.",
 "C18": " 'Current password': the password file is rewritten (changed, disabled, removed, same hash) while the server runs; the old password must then be refused. Fourth session: the throttle alphabet has another spelling of an account's name (LOGIN \"bob \"): it is no account, and may not become a second allowance of guesses. The password-change cells also put the file back with an earlier modification time.",
 "C19": " The menu has 15 items (incl. commands ending directly after a literal whose last octets look like a declaration). Third session: the client connection's stream buffer is lowered together with MAX_INPUT_SIZE (40 < 64, as 64 KiB < 10 MiB in production); 17 items incl. lines longer than the buffer. Both directions at once: a pipelined synchronising literal while a response is being relayed (open finding F112); stream buffer 12 vs limit 64 with a trickling segmentation.",
 "C20": " A second BFS starts with the POP3 session open over the DELE/RSET/QUIT bookkeeping; a schedule part races QUIT, RETR and TOP against IMAP EXPUNGE / UID FETCH / MOVE / APPEND "
        "(the POP3 handler's own attributes are part of the canonical state). Relay part: RETR replies with lines of 1 .. 300000 octets through the real POP3 front-end relay, three segmentations, delivered unmodified.",
}


def main():
    props = [json.loads(l) for l in open(os.path.join(ROOT, "properties.jsonl"))]
    checks, na = [], []
    for p in props:
        pid = p["id"]
        if pid in CHECKS:
            c = CHECKS[pid]
            checks.append({
                "property_id": pid,
                "quick_cmd": f"./vcheck {pid} --tier quick",
                "thorough_cmd": f"./vcheck {pid} --tier thorough",
                "evidence_file": f"evidence/{pid}.json",
                "replay_cmd_template": f"./vcheck {pid} --replay {{path}}",
                "engine": c["engine"],
                "level_claimed": {"category": c["cat"], "text": c["text"] + EXTRA.get(pid, ""), "design_ref": c["ref"]},
                "level_note": c["note"],
                "technique": c["tech"],
            })
        else:
            na.append({"property_id": pid, "reason": NOT_YET.get(pid, "check not built yet in this revision of /verif (planned: see DESIGN.md section 4); nothing is claimed")})
    m = {
        "version": 1,
        "setup_cmd": "./setup.sh",
        "hooks": {
            "guard": "ASIMAP_VERIF",
            "enable": "none needed: all seams are harness-side monkey-patches applied in the checker process (vf/seams.py); /repo carries no instrumentation",
            "baseline_off_cmd": BASELINE["cmd"].replace("--junitxml=<file>", "--junitxml=/tmp/asimap-baseline.junit.xml"),
            "source_commits": [],
            "add_only": True,
        },
        "engines": [
            {"name": "E-input-enumeration", "path": "vf/props", "serves_properties": sorted(k for k, v in CHECKS.items() if v["engine"].startswith("E")),
             "kind_free_text": "bounded exhaustive enumeration of inputs, each executed on the real code under the virtual loop and compared with a reference model"},
            {"name": "H-history-bfs", "path": "vf/explore/hist.py", "serves_properties": sorted(k for k, v in CHECKS.items() if v["engine"].startswith("H")),
             "kind_free_text": "explicit-state breadth-first search over operation histories of the real code with canonical-state deduplication"},
            {"name": "S-schedule-dfs", "path": "vf/explore/sched.py", "serves_properties": sorted(k for k, v in CHECKS.items() if v["engine"].startswith("S")),
             "kind_free_text": "stateless deviation-bounded exploration of I/O-completion schedules of the real code on a virtual event loop"},
            {"name": "K-crash-enumeration", "path": "vf/explore/crash.py", "serves_properties": sorted(k for k, v in CHECKS.items() if v["engine"].startswith("K")),
             "kind_free_text": "enumeration of every crash point (before/after each DB operation and folder mutation) of a history, each snapshot re-booted with the real start-up path"},
        ],
        "checks": checks,
        "not_applicable": na,
        "notes": "Model checking of the implementation itself: every transition is a call into /repo/asimap as on disk (imported from ASIMAP_SRC, default /repo). "
                 "Genuine defects repaired by fix: commits are listed in known_findings.json (status fixed); open findings are reported as KNOWN-FINDING lines.",
    }
    with open(os.path.join(ROOT, "MANIFEST.json"), "w") as f:
        json.dump(m, f, indent=1)
if __name__ == "__main__":
    main()
