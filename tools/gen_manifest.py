#!/venv/bin/python
"""Generate MANIFEST.json from the table below (kept in one place so it is always valid)."""
import json, os
ROOT = os.path.dirname(os.path.dirname(os.path.abspath(__file__)))
BASELINE = json.load(open("/root/.vp/BASELINE.json"))

CHECKS = {
 "C15": dict(cat="exploration", engine="E-input-enumeration", tech="bounded exhaustive input enumeration against a reference model",
   text="Every sequence set of <=k elements over {0..max+1,*} and all ranges (both orders) is executed in each of 13 command forms "
        "(FETCH, STORE, COPY, MOVE, SEARCH <set>, SEARCH UID <set>, and the UID forms incl. UID EXPUNGE) on real mailboxes of N<=4 (quick) / "
        "N<=5 (thorough) messages with dense and sparse UID layouts; the set of messages touched/returned must equal an independent denotation. "
        "The space is finite and fully enumerated, which is the right level for a property quantified over inputs.",
   note="Trusted: the virtual event loop and seams (vf/simloop.py, vf/seams.py), the reference denotation (vf/refmodel/sets.py), the "
        "independent response tokenizer. Single session, default schedule. Effects of COPY/MOVE/EXPUNGE observed on the MH folder on disk.",
   ref="DESIGN.md section 4 C15"),
}
NOT_YET = {}

def main():
    props = [json.loads(l) for l in open(os.path.join(ROOT, "properties.jsonl"))]
    checks, na = [], []
    for p in props:
        pid = p["id"]
        if pid in CHECKS:
            c = CHECKS[pid]
            checks.append({
                "property_id": pid,
                "quick_cmd": f"./vcheck {pid} --tier quick",
                "thorough_cmd": f"./vcheck {pid} --tier thorough",
                "evidence_file": f"evidence/{pid}.json",
                "replay_cmd_template": f"./vcheck {pid} --replay {{path}}",
                "engine": c["engine"],
                "level_claimed": {"category": c["cat"], "text": c["text"], "design_ref": c["ref"]},
                "level_note": c["note"],
                "technique": c["tech"],
            })
        else:
            na.append({"property_id": pid, "reason": NOT_YET.get(pid, "check not built yet in this revision of /verif (planned: see DESIGN.md section 4); nothing is claimed")})
    m = {
        "version": 1,
        "setup_cmd": "./setup.sh",
        "hooks": {
            "guard": "ASIMAP_VERIF",
            "enable": "none needed: all seams are harness-side monkey-patches applied in the checker process (vf/seams.py); /repo carries no instrumentation",
            "baseline_off_cmd": BASELINE["cmd"].replace("--junitxml=<file>", "--junitxml=/tmp/asimap-baseline.junit.xml"),
            "source_commits": [],
            "add_only": True,
        },
        "engines": [
            {"name": "E-input-enumeration", "path": "vf/props", "serves_properties": sorted(k for k, v in CHECKS.items() if v["engine"].startswith("E")),
             "kind_free_text": "bounded exhaustive enumeration of inputs, each executed on the real code under the virtual loop and compared with a reference model"},
            {"name": "H-history-bfs", "path": "vf/explore/hist.py", "serves_properties": sorted(k for k, v in CHECKS.items() if v["engine"].startswith("H")),
             "kind_free_text": "explicit-state breadth-first search over operation histories of the real code with canonical-state deduplication"},
            {"name": "S-schedule-dfs", "path": "vf/explore/sched.py", "serves_properties": sorted(k for k, v in CHECKS.items() if v["engine"].startswith("S")),
             "kind_free_text": "stateless deviation-bounded exploration of I/O-completion schedules of the real code on a virtual event loop"},
            {"name": "K-crash-enumeration", "path": "vf/explore/crash.py", "serves_properties": sorted(k for k, v in CHECKS.items() if v["engine"].startswith("K")),
             "kind_free_text": "enumeration of every crash point (before/after each DB operation and folder mutation) of a history, each snapshot re-booted with the real start-up path"},
        ],
        "checks": checks,
        "not_applicable": na,
        "notes": "Model checking of the implementation itself: every transition is a call into /repo/asimap as on disk (imported from ASIMAP_SRC, default /repo). "
                 "Genuine defects repaired by fix: commits are listed in known_findings.json (status fixed); open findings are reported as KNOWN-FINDING lines.",
    }
    with open(os.path.join(ROOT, "MANIFEST.json"), "w") as f:
        json.dump(m, f, indent=1)
if __name__ == "__main__":
    main()
