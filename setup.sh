#!/bin/sh
# Run once after a fresh restore, offline.  Nothing to build: the framework is pure Python
# run by /venv/bin/python, and asimap is imported from /repo's working tree at check time.
set -e
cd "$(dirname "$0")"
mkdir -p evidence replays
/venv/bin/python - <<'PY'
import sys
sys.path.insert(0, "/repo")
import asimap, aiosqlite, aiofiles  # noqa
print("asimap from", asimap.__file__)
PY
PYTHONHASHSEED=0 PYTHONPATH="$PWD:/repo" /venv/bin/python -m vf.selftest
