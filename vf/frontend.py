"""
Front-end (root server) harness: the real IMAPClient.start() / POP3Client.start() on fed
StreamReaders under the virtual loop.  Spawning/connecting the per-user process is replaced by
a recorder: "a user-process connection was requested for user u" is the observation; bytes
relayed to the user process are captured; bytes "from the user process" can be fed back.
"""

from __future__ import annotations

import asyncio
import hashlib
import os
import shutil
import tempfile

from . import seams
from .simloop import Scheduler, VLoop
from .world import scratch_root

GOOD = {"alice": "alicepw", "bob": "bobpw", "carol": "carolpw"}


def md5_hash(pw: str, salt: str = "s4ltsalt") -> str:
    """A cheap hash the repository's hashers accept: PBKDF2-SHA1 with one iteration (the md5
    hashers are not enabled in asimap.hashers.PASSWORD_HASHERS; pbkdf2_sha256 runs its 720 000
    hardening iterations on every wrong password)."""
    import base64

    dk = hashlib.pbkdf2_hmac("sha1", pw.encode(), salt.encode(), 1)
    return f"pbkdf2_sha1$1${salt}${base64.b64encode(dk).decode()}"


class CapWriter:
    def __init__(self, loop, reader=None, name=""):
        self.loop = loop
        self.chunks: list[bytes] = []
        self.closed = False
        self.reader = reader
        self.name = name
        self.peer = ("10.9.9.9", 40000)

    def write(self, data: bytes):
        if not self.closed:
            self.chunks.append(bytes(data))

    @property
    def data(self) -> bytes:
        return b"".join(self.chunks)

    async def drain(self):
        return None

    def close(self):
        if not self.closed:
            self.closed = True
            if self.reader is not None and not self.reader.at_eof():
                self.loop.call_soon(lambda: (not self.reader.at_eof()) and self.reader.feed_eof())

    def is_closing(self):
        return self.closed

    async def wait_closed(self):
        return None

    def get_extra_info(self, key, default=None):
        return self.peer if key == "peername" else default


class FrontWorld:
    def __init__(self, prefix=None, accounts: dict | None = None, max_input: int | None = None):
        seams.install()
        import asimap.auth
        import asimap.pop3_server
        import asimap.server
        import asimap.throttle
        import asimap.user_server

        self.mods = (asimap.auth, asimap.server, asimap.throttle, asimap.pop3_server)
        self.sched = Scheduler(prefix)
        self.loop = VLoop(self.sched)
        self.loop.install()
        self.root = tempfile.mkdtemp(prefix="fw-", dir=scratch_root())
        self.connect_requests: list[tuple[str, str]] = []  # (proto, user)
        self.log_records: list = []
        seams.ctx.log_records = self.log_records
        seams.ctx.syn_mtime = {}
        # accounts: name -> hash string (None = md5 of GOOD[name])
        accounts = accounts if accounts is not None else {"alice": None, "bob": None}
        pw = os.path.join(self.root, "passwords.txt")
        with open(pw, "w") as f:
            for u, h in accounts.items():
                os.makedirs(os.path.join(self.root, "mail-" + u, "inbox"), exist_ok=True)
                f.write(f"{u}:{md5_hash(GOOD.get(u, 'x')) if h is None else h}:mail-{u}\n")
        asimap.auth.PW_FILE_LOCATION = pw
        asimap.auth.PW_FILE_LAST_TIMESTAMP = 0.0
        asimap.auth.USERS.clear()
        asimap.throttle.BAD_USER_AUTHS.clear()
        asimap.throttle.BAD_IP_AUTHS.clear()
        if max_input is not None:
            asimap.server.MAX_INPUT_SIZE = max_input
            asimap.user_server.MAX_INPUT_SIZE = max_input
        else:
            from asimap import constants

            asimap.server.MAX_INPUT_SIZE = constants.MAX_INPUT_SIZE
            asimap.user_server.MAX_INPUT_SIZE = constants.MAX_INPUT_SIZE
        fw = self

        async def imap_connect(intf, user):
            fw.connect_requests.append(("imap", user.username))
            intf.reader = asyncio.StreamReader(limit=131_072, loop=fw.loop)
            intf.writer = CapWriter(fw.loop, intf.reader, "to-user-process")
            intf.wait_task = asyncio.create_task(intf.msgs_to_client())
            intf.wait_task.add_done_callback(intf.msgs_to_client_done)

        async def pop3_connect(intf, user):
            fw.connect_requests.append(("pop3", user.username))
            intf.reader = asyncio.StreamReader(limit=131_072, loop=fw.loop)
            intf.writer = CapWriter(fw.loop, intf.reader, "to-user-process")
            intf.writer.write(b"{4+}\nPOP3")
            intf.wait_task = asyncio.create_task(intf.msgs_to_client())
            intf.wait_task.add_done_callback(intf.msgs_to_client_done)

        self._orig = (asimap.server.IMAPSubprocessInterface.get_and_connect_subprocess,
                      asimap.pop3_server.POP3SubprocessInterface.get_and_connect_subprocess)
        asimap.server.IMAPSubprocessInterface.get_and_connect_subprocess = imap_connect
        asimap.pop3_server.POP3SubprocessInterface.get_and_connect_subprocess = pop3_connect

    class _Srv:
        debug = False
        log_config = None
        trace = False
        trace_dir = None

    def imap_client(self, addr="10.0.0.1", port=5000, limit=2**16):
        """limit: the stream buffer limit of the client connection (asyncio.start_server's default 64 KiB in production, where it is
        far below MAX_INPUT_SIZE; a check that lowers MAX_INPUT_SIZE lowers it too, to keep that relation)."""
        import asimap.server as sv

        rd = asyncio.StreamReader(limit=limit, loop=self.loop)
        wr = CapWriter(self.loop, rd, "to-client")
        wr.peer = (addr, port)
        c = sv.IMAPClient(self._Srv(), f"{addr}:{port}", addr, port, rd, wr)
        task = self.loop.create_task(c.start())
        self.loop.settle()
        return FrontSession(self, c, rd, wr, task)

    def pop3_client(self, addr="10.0.0.1", port=5100):
        import asimap.pop3_server as ps

        rd = asyncio.StreamReader(limit=2**16, loop=self.loop)
        wr = CapWriter(self.loop, rd, "to-client")
        wr.peer = (addr, port)
        c = ps.POP3Client(self._Srv(), f"{addr}:{port}", addr, port, rd, wr)
        task = self.loop.create_task(c.start())
        self.loop.settle()
        return FrontSession(self, c, rd, wr, task)

    def close(self):
        import asimap.pop3_server
        import asimap.server

        try:
            for t in list(asyncio.all_tasks(self.loop)):
                t.cancel()
            try:
                self.loop.run_until(lambda: False, allow_timers=False)
            except Exception:
                pass
        finally:
            asimap.server.IMAPSubprocessInterface.get_and_connect_subprocess = self._orig[0]
            asimap.pop3_server.POP3SubprocessInterface.get_and_connect_subprocess = self._orig[1]
            self.loop.uninstall()
            self.loop.close()
            shutil.rmtree(self.root, ignore_errors=True)


class FrontSession:
    def __init__(self, fw, client, reader, writer, task):
        self.fw, self.client, self.reader, self.writer, self.task = fw, client, reader, writer, task

    @property
    def intf(self):
        return self.client.subprocess_intf

    def out(self) -> bytes:
        return self.writer.data

    def relayed(self) -> bytes:
        w = getattr(self.intf, "writer", None)
        return w.data if isinstance(w, CapWriter) else b""

    def feed(self, data: bytes, settle=True, timers=True):
        if not self.reader.at_eof() and not getattr(self.reader, "_eof", False):
            self.reader.feed_data(data)
        if settle:
            self.fw.loop.settle()

    def line(self, text: bytes, wait: float = 15.0) -> bytes:
        """Send one line, let the server work (advancing virtual time up to `wait` s)."""
        n0 = len(self.out())
        self.feed(text + b"\r\n")
        lp = self.fw.loop
        t0 = lp.time()
        lp.run_until(lambda: len(self.out()) > n0 or self.task.done(), horizon=t0 + wait)
        lp.settle()
        return self.out()[n0:]

    def from_user_process(self, data: bytes):
        self.intf.reader.feed_data(data)
        self.fw.loop.settle()
