"""
One closed world per execution: scratch jail, virtual loop, a real IMAPUserServer,
sessions through the real IMAPClientProxy.run(), the MH delivery agent, snapshots.
"""

from __future__ import annotations

import asyncio
import atexit
import gc
import hashlib
import os
import shutil
import sqlite3
import tempfile
from pathlib import Path

from . import seams
from .simloop import Scheduler, VLoop

SCRATCH_PARENT = os.environ.get("VF_SCRATCH") or (
    "/dev/shm" if os.path.isdir("/dev/shm") and os.access("/dev/shm", os.W_OK) else tempfile.gettempdir()
)
_scratch_root: str | None = None
_owner_pid: int | None = None


def scratch_root() -> str:
    """Per-process scratch directory, removed at exit."""
    global _scratch_root, _owner_pid
    if _scratch_root is None or _owner_pid != os.getpid():
        _scratch_root = tempfile.mkdtemp(prefix=f"asimap-verif-{os.getpid()}-", dir=SCRATCH_PARENT)
        _owner_pid = os.getpid()
        os.environ["TMPDIR"] = _scratch_root
        tempfile.tempdir = _scratch_root
        atexit.register(_cleanup, _scratch_root, os.getpid())
    return _scratch_root


def _cleanup(path, pid):
    if os.getpid() == pid:
        shutil.rmtree(path, ignore_errors=True)


SYN_BASE = 2_000_000_000
DECOY_TOKEN = "DECOYTOKENx7q"


class FakeServer:
    """What asyncio.start_server returns, for IMAPUserServer.run()."""

    class _Sock:
        def getsockname(self):
            return ("127.0.0.1", 40000)

    def __init__(self, loop):
        self.sockets = [self._Sock()]
        self._serving = True
        self._closed = loop.create_future()

    async def __aenter__(self):
        return self

    async def __aexit__(self, *a):
        self.close()

    def is_serving(self):
        return self._serving

    def close(self):
        self._serving = False
        if not self._closed.done():
            self._closed.set_result(None)

    async def wait_closed(self):
        return None

    async def serve_forever(self):
        self._entered = True
        await self._closed
        raise asyncio.CancelledError()


class World:
    """
    template: path of a jail directory to copy (contains mail/, decoy/, outside.txt), or
    None for an empty jail.
    mode: 'new'  -> IMAPUserServer.new() only (what the unit tests do)
          'run'  -> the real IMAPUserServer.run() with start_server stubbed
    """

    def __init__(self, template: str | None = None, prefix=None, *, mode: str = "new",
                 loopopts: dict | None = None, keep: bool = False):
        seams.install()
        self.sched = prefix if isinstance(prefix, Scheduler) else Scheduler(prefix)
        self.loopopts = loopopts or {}
        self.mode = mode
        self.root = tempfile.mkdtemp(prefix="w-", dir=scratch_root())
        self.jail = os.path.join(self.root, "jail")
        if template:
            shutil.copytree(template, self.jail, symlinks=True)
        else:
            make_empty_jail(self.jail)
        self.maildir = Path(self.jail) / "mail"
        self.syn_mtime: dict[str, int] = {}
        self.tick = SYN_BASE
        self.sessions: dict[str, "Session"] = {}
        self.srv = None
        self.run_task = None
        self.loop: VLoop | None = None
        self.keep = keep
        self.closed = False
        self.log_records: list = []
        self.loop_errors: list = []
        self.vt_offset = 0.0
        self._new_loop()

    # -- loop / server lifecycle -------------------------------------------------------
    def _new_loop(self):
        if self.loop is not None:
            self.loop_errors.extend(self.loop.errors)
            self.vt_offset += self.loop.time()
            self.loop.uninstall()
            try:
                self.loop.close()
            except Exception:
                pass
        self.loop = VLoop(self.sched, **self.loopopts)
        self.loop.install()
        seams.ctx.syn_mtime = self.syn_mtime
        seams.ctx.log_records = self.log_records

    def run_coro(self, coro, horizon: float | None = None):
        task = self.loop.create_task(coro)
        self.loop.run_until(task.done, horizon=horizon)
        if not task.done():
            raise Stuck(f"coroutine did not finish: {coro}")
        return task.result()

    def start(self):
        import asimap.user_server as us
        from asimap.user_server import IMAPUserServer

        if self.mode == "new":
            self.srv = self.run_coro(IMAPUserServer.new(self.maildir))
        else:
            loop = self.loop
            fake = FakeServer(loop)
            seams.ctx.fake_server = fake
            self.srv = self.run_coro(IMAPUserServer.new(self.maildir))
            self.fake_server = fake
            self.run_task = loop.create_task(self.srv.run())
            # until it is serving: past the 2 s head start
            ok = self.loop.run_until(lambda: getattr(fake, "_entered", False) or self.run_task.done(),
                                     horizon=self.loop.time() + 30)
            if not ok:
                raise Stuck("IMAPUserServer.run() did not reach serve_forever")
        return self.srv

    def shutdown(self):
        """Orderly shutdown of the user server (what SIGTERM / expiry does)."""
        if self.srv is None:
            return
        for s in self.sessions.values():
            s.detached = True
        if self.mode == "run" and self.run_task is not None:
            if not self.run_task.done():
                self.run_task.cancel()
            self.loop.run_until(self.run_task.done, horizon=self.loop.time() + 300)
            if not self.run_task.done():
                raise Stuck("run() did not finish shutting down")
            self.run_task.exception() if not self.run_task.cancelled() else None
        else:
            self.run_coro(self.srv.shutdown(), horizon=self.loop.time() + 300)
        self.srv = None
        self.run_task = None
        self.sessions = {}

    def restart(self):
        self.shutdown()
        self._new_loop()
        gc.collect()
        return self.start()

    def expire_restart(self):
        """All clients leave; 30 virtual minutes pass; the server exits by itself (run mode);
        then it is launched again on the same directory."""
        assert self.mode == "run"
        for s in list(self.sessions.values()):
            s.feed_eof()
        self.loop.settle()
        self.sessions = {}
        t0 = self.loop.time()
        self.loop.run_until(self.run_task.done, horizon=t0 + 1800 + 120)
        if not self.run_task.done():
            raise Stuck("server did not exit 30 minutes after its last client left")
        self.srv = None
        self.run_task = None
        self._new_loop()
        gc.collect()
        return self.start()

    def kill(self):
        """Process death: drop everything without running any asimap code."""
        self.srv = None
        self.run_task = None
        self.sessions = {}
        self._new_loop()

    def close(self):
        if self.closed:
            return
        self.closed = True
        try:
            if self.loop is not None:
                self.loop_errors.extend(self.loop.errors)
                # cancel whatever is left so that no task is destroyed pending noisily
                for t in list(asyncio.all_tasks(self.loop)):
                    t.cancel()
                try:
                    self.loop.run_until(lambda: False, allow_timers=False)
                except Exception:
                    pass
                self.loop.uninstall()
                self.loop.close()
        finally:
            self.srv = None
            self.sessions = {}
            self.run_task = None
            if not self.keep:
                shutil.rmtree(self.root, ignore_errors=True)
            gc.collect()

    # -- sessions -------------------------------------------------------------------------
    def connect(self, name: str, pop3: bool = False) -> "Session":
        from .sessions import Session

        s = Session(self, name, pop3=pop3)
        self.sessions[name] = s
        return s

    # -- environment: the MH delivery agent ------------------------------------------------
    def next_tick(self) -> int:
        self.tick += 10
        return self.tick

    def folder_path(self, folder: str) -> str:
        return os.path.join(str(self.maildir), folder)

    def touch(self, folder: str):
        self.syn_mtime[self.folder_path(folder).rstrip("/")] = self.next_tick()

    def deliver(self, folder: str, msg: bytes, unseen: bool = True, mtime: int | None = None, tick: bool = True, seqs=()) -> int:
        """What `rcvstore`/`inc` do, written with plain os calls (no asimap, no mailbox.MH).
        seqs: further MH sequences the agent puts the message into (`rcvstore -sequence flagged`)."""
        d = self.folder_path(folder)
        keys = [int(n) for n in os.listdir(d) if n.isdigit()]
        key = max(keys, default=0) + 1
        p = os.path.join(d, str(key))
        with open(p, "wb") as f:
            f.write(msg)
        if mtime is not None:
            os.utime(p, (mtime, mtime))
        names = (["unseen"] if unseen else []) + list(seqs)
        if names:
            sp = os.path.join(d, ".mh_sequences")
            lines = []
            if os.path.exists(sp):
                with open(sp) as f:
                    lines = f.read().splitlines()
            for name in names:
                out, found = [], False
                for ln in lines:
                    if ln.startswith(name + ":"):
                        out.append(ln.rstrip() + f" {key}")
                        found = True
                    else:
                        out.append(ln)
                if not found:
                    out.append(f"{name}: {key}")
                lines = out
            with open(sp, "w") as f:
                f.write("\n".join(lines) + "\n")
        if tick:
            self.touch(folder)  # tick=False: a delivery within the second of the folder's current mtime
        return key

    # -- snapshots -------------------------------------------------------------------------
    def snapshot_tree(self, sub: str = "") -> dict:
        return snapshot_tree(os.path.join(self.jail, sub) if sub else self.jail)

    def db_dump(self) -> dict:
        return db_dump(os.path.join(str(self.maildir), "asimap.db"))


class Stuck(RuntimeError):
    pass


def make_empty_jail(jail: str):
    os.makedirs(os.path.join(jail, "mail", "inbox"))
    sec = os.path.join(jail, "decoy", "secret")
    os.makedirs(sec)
    with open(os.path.join(sec, "1"), "wb") as f:
        f.write(
            f"From: spy@example.com\nTo: x@example.com\nSubject: {DECOY_TOKEN}\n"
            f"Message-ID: <{DECOY_TOKEN}@x>\nDate: Mon, 01 Jan 2024 00:00:00 +0000\n\n{DECOY_TOKEN}\n".encode()
        )
    with open(os.path.join(sec, "2"), "wb") as f:
        f.write(f"From: spy@example.com\nSubject: two {DECOY_TOKEN}\n\nbody2\n".encode())
    with open(os.path.join(sec, ".mh_sequences"), "w") as f:
        f.write("unseen: 1\n")
    with open(os.path.join(jail, "outside.txt"), "w") as f:
        f.write("canary " + DECOY_TOKEN + "\n")
    # a sibling whose name merely *starts with* the mail directory's name (mail vs mail-old): a containment
    # check that compares characters instead of path components takes it for inside
    sib = os.path.join(jail, "mail-old", "secret")
    os.makedirs(sib)
    for k in ("1", "2", "3"):
        with open(os.path.join(sib, k), "wb") as f:
            f.write(f"From: spy@example.com\nSubject: old {k} {DECOY_TOKEN}\n\nold body {DECOY_TOKEN}\n".encode())


def snapshot_tree(root: str, skip_db: bool = True) -> dict:
    out = {}
    for dp, dns, fns in os.walk(root, followlinks=False):
        dns.sort()
        rel = os.path.relpath(dp, root)
        out[rel + "/"] = "dir"
        for dn in list(dns):
            full = os.path.join(dp, dn)
            if os.path.islink(full):
                out[os.path.join(rel, dn)] = "link:" + os.readlink(full)
                dns.remove(dn)
        for fn in sorted(fns):
            full = os.path.join(dp, fn)
            if skip_db and fn.startswith("asimap.db"):
                continue
            if os.path.islink(full):
                out[os.path.join(rel, fn)] = "link:" + os.readlink(full)
                continue
            try:
                with open(full, "rb") as f:
                    data = f.read()
            except OSError:
                data = b"<unreadable>"
            out[os.path.join(rel, fn)] = (len(data), hashlib.sha256(data).hexdigest()[:16])
    return out


TS_COLS = {"date", "last_resync"}


def db_dump(path: str, keep_ts: bool = False) -> dict:
    if not os.path.exists(path):
        return {}
    out = {}
    con = sqlite3.connect(f"file:{path}?mode=ro", uri=True)
    try:
        tables = [r[0] for r in con.execute("select name from sqlite_master where type='table' order by name")]
        for t in tables:
            cols = [r[1] for r in con.execute(f"pragma table_info({t})")]
            keep = [c for c in cols if keep_ts or c not in TS_COLS]
            rows = con.execute(f"select {','.join(keep)} from {t} order by 1").fetchall()
            out[t] = [dict(zip(keep, r)) for r in rows]
    finally:
        con.close()
    return out
