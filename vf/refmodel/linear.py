"""
Sequential outcomes of a small set of concurrently issued commands (C10 oracle).

Every interleaving of the commands' atomic steps that respects each session's own order is
run on the reference Store; COPY is read-source + add-to-destination, MOVE is
read + add + remove (the documented steps).  The result is the set of admissible outcome
signatures; the observed execution must produce one of them.
"""

from __future__ import annotations

from .store import Refused, Store, norm_flags
from . import sets as S


def _parse_set(s: str):
    out = []
    for part in s.split(","):
        if ":" in part:
            a, b = part.split(":")
            out.append((a if a == "*" else int(a), b if b == "*" else int(b)))
        else:
            out.append(part if part == "*" else int(part))
    return out


def final_sig(st: Store):
    return tuple(sorted((name, tuple((m.cid, tuple(sorted(m.flags))) for m in mb.msgs)) for name, mb in st.mboxes.items()
                        if not mb.noselect))


MH_SEQ_FLAGS = {"flagged": "\\Flagged", "replied": "\\Answered", "Draft": "\\Draft"}


def _sync(st: Store, sn: str):
    s = st.session(sn)
    mb = st.mboxes.get(s.selected) if s.selected else None
    if mb is not None:
        s.view = mb.uids()
        s.max_seen_uid = max([s.max_seen_uid] + s.view)


def _resolve_alts(st: Store, sn: str, elems, uid: bool, may_use_stale_view: bool, may_renumber: bool = True):
    """Alternative target lists (lists of Msg) a set may denote, or 'REFUSED'.
    may_renumber: the command may first send the session's pending EXPUNGEs and then read the numbers in the new
    numbering (COPY / MOVE: RFC 3501 allows EXPUNGE responses there); FETCH / STORE / SEARCH may not -- for them
    a number means what it means in the view the session has been told about, or the command is refused."""
    s = st.session(sn)
    mb = st.mboxes.get(s.selected) if s.selected else None
    if mb is None:
        return ["REFUSED"]
    if uid:
        want = S.denote_uid(elems, mb.uids(), lenient_zero=True)
        return [[m for m in mb.msgs if m.uid in want]]
    alts = []
    in_sync = all(u in mb.uids() for u in s.view)
    views = []
    if not in_sync:
        alts.append("REFUSED")  # the documented gate: pending EXPUNGEs -> NO
        if may_use_stale_view:
            views.append(list(s.view))
    cur = [u for u in s.view if u in mb.uids()] + [u for u in mb.uids() if u not in s.view]
    if in_sync or (may_use_stale_view and may_renumber):
        views.append(cur)
    for v in views:
        try:
            pos = S.denote_seq(elems, len(v))
        except S.Invalid:
            if "REFUSED" not in alts:
                alts.append("REFUSED")
            continue
        uids = {v[i - 1] for i in pos}
        tgt = [m for m in mb.msgs if m.uid in uids]
        if len(tgt) != len(uids):
            # names a message that is gone: only a refusal is admissible for that reading
            if "REFUSED" not in alts:
                alts.append("REFUSED")
            continue
        if tgt not in [a for a in alts if a != "REFUSED"]:
            alts.append(tgt)
    return alts or ["REFUSED"]


def steps_of(ev: dict):
    """Split a command event into the names of its atomic steps."""
    if ev["op"] == "copy":
        return ["read", "add"]
    if ev["op"] == "move":
        return ["read", "add", "remove"]
    return ["all"]


def outcomes(store0: Store, cmds: dict, max_paths: int = 20000):
    """cmds: {session: [event,...]}.  Returns set of (per-command results, final store)."""
    seqs = {sn: [(i, ev, stp) for i, ev in enumerate(evs) for stp in steps_of(ev)] for sn, evs in cmds.items()}
    results = set()
    budget = [max_paths]

    def rec(st: Store, pos: dict, res: dict, ctx: dict):
        if budget[0] <= 0:
            raise RuntimeError("linearization path budget exceeded")
        done = True
        for sn, seq in seqs.items():
            if pos[sn] < len(seq):
                done = False
                i, ev, stp = seq[pos[sn]]
                for st2, res2, ctx2 in apply_step(st, sn, i, ev, stp, res, ctx):
                    p2 = dict(pos)
                    p2[sn] += 1
                    rec(st2, p2, res2, ctx2)
        if done:
            budget[0] -= 1
            results.add((tuple(sorted(res.items())), final_sig(st)))

    rec(store0.clone(), {sn: 0 for sn in seqs}, {}, {})
    return results


def apply_step(st: Store, sn: str, i: int, ev: dict, stp: str, res: dict, ctx: dict):
    """Yields (store', results', ctx') alternatives."""
    key = f"{sn}{i}"
    op = ev["op"]
    uid = ev.get("uid", False)

    def out(st2, r, c=None):
        r2 = dict(res)
        if r is not None:
            r2[key] = r
        return st2, r2, dict(ctx if c is None else c)

    if key in ctx and ctx[key] == "ABORTED":
        yield out(st, None)
        return
    if op in ("fetch", "store", "search"):
        s0 = st.session(sn)
        if op == "search":
            st2 = st.clone()
            mb = st2.mboxes.get(st2.session(sn).selected) if st2.session(sn).selected else None
            in_sync = mb is not None and all(u in mb.uids() for u in st2.session(sn).view)
            if mb is None:
                yield out(st2, ("REFUSED",))
                return
            if not uid and not in_sync:
                yield out(st.clone(), ("REFUSED",))
            if uid or in_sync:
                if uid:
                    _sync(st2, sn)
                hits = tuple(m.cid for m in mb.msgs if _match(ev.get("key", "ALL"), m))
                yield out(st2, ("OK", hits))
            return
        elems = _parse_set(ev["set"]) if "set_resolved" not in ev else _parse_set(ev["set_resolved"])
        for alt in _resolve_alts(st, sn, elems, uid, True, may_renumber=False):
            st2 = st.clone()
            if alt == "REFUSED":
                yield out(st2, ("REFUSED",))
                continue
            s2 = st2.session(sn)
            mb = st2.mboxes[s2.selected]
            if uid:
                _sync(st2, sn)
            tg = [mb.by_uid(m.uid) for m in alt]
            if op == "store":
                fl = set(norm_flags(ev["flags"].split()))
                if not s2.readonly:
                    for m in tg:
                        if ev.get("mode", "+") == "+":
                            m.flags |= fl
                        elif ev["mode"] == "-":
                            m.flags -= fl
                        else:
                            m.flags = set(fl)
                    yield out(st2, ("OK", tuple(m.cid for m in tg)))
                else:
                    yield out(st2, ("REFUSED",))
            else:
                items = ev.get("items", "(UID)")
                seen = "BODY[" in items.replace("BODY.PEEK[", "") or "RFC822" in items.replace("RFC822.SIZE", "").replace("RFC822.HEADER", "")
                if seen and not s2.readonly:
                    for m in tg:
                        m.flags.add("\\Seen")
                yield out(st2, ("OK", tuple(m.cid for m in tg)))
        return
    if op in ("copy", "move"):
        if stp == "read":
            _s = st.session(sn)
            elems = _parse_set(ev["set"])
            stale_ok = True
            st_sync = st.clone()
            # the numbers denote messages of the view the session has been told about (or the command is refused); the
            # session's pending responses are flushed afterwards
            alts = _resolve_alts(st, sn, elems, uid, stale_ok, may_renumber=False)
            for alt in alts:
                st2 = st.clone()
                if alt == "REFUSED":
                    c = dict(ctx)
                    c[key] = "ABORTED"
                    yield out(st2, ("REFUSED",), c)
                    continue
                _sync(st2, sn)
                c = dict(ctx)
                c[key] = [(m.uid, m.cid, frozenset(m.flags), m.idate) for m in alt]
                yield out(st2, None, c)
            return
        snap = ctx.get(key)
        if stp == "add":
            st2 = st.clone()
            d = st2.mb(ev["dst"])
            if d is None or d.noselect:
                c = dict(ctx)
                c[key] = "ABORTED"
                yield out(st2, ("REFUSED",), c)
                return
            if not snap:
                # nothing denoted: OK or NO alike, nothing happens
                c = dict(ctx)
                c[key] = "ABORTED"
                yield out(st2, ("EMPTY",), c)
                return
            from .store import Msg

            for (u, cid, fl, idate) in snap:
                d.msgs.append(Msg(d.uidnext, cid, set(fl), idate))
                d.uidnext += 1
            if op == "copy":
                yield out(st2, ("OK", tuple(x[1] for x in snap)))
            else:
                yield out(st2, None)
            return
        if stp == "remove":
            st2 = st.clone()
            s2 = st2.session(sn)
            mb = st2.mboxes.get(s2.selected) if s2.selected else None
            if mb is not None and snap and snap != "ABORTED":
                ids = {x[0] for x in snap}
                mb.msgs = [m for m in mb.msgs if m.uid not in ids]
                _sync(st2, sn)
            yield out(st2, ("OK", tuple(x[1] for x in (snap or []))))
            return
    st2 = st.clone()
    if op == "pop":
        # a POP3 command line; only QUIT changes the store: it removes the messages marked so far
        if ev["line"].upper().startswith("QUIT"):
            mb = st2.mboxes["INBOX"]
            gone = set(ev.get("marked_uids", ()))
            mb.msgs = [m for m in mb.msgs if m.uid not in gone]
        yield out(st2, ("OK",))
        return
    if op == "env_deliver":
        for k in range(ev.get("n", 1)):
            st2.deliver(ev["m"], ev.get("cids", [f"env{i}x{k}"])[k] if ev.get("cids") else f"env{i}x{k}", ev.get("unseen", True),
                        flags=[MH_SEQ_FLAGS[q] for q in ev.get("seqs", ())])
        yield out(st2, ("OK",))
        return
    try:
        if op in ("noop", "check", "capability", "namespace", "lsub", "idle", "done"):
            s_ = st2.session(sn)
            orphaned = bool(getattr(s_, "orphaned", False))
            _sync(st2, sn)
            # a session whose selected mailbox another session has deleted: the protocol does not say what its NOOP gets (asimap
            # says OK when the DELETE is over, "NO mailbox deleted" while it is going on, BYE to a later FETCH): either is accepted
            yield out(st2, ("EMPTY",) if (orphaned and op in ("noop", "check")) else ("OK",))
        elif op == "expunge":
            _sync(st2, sn)
            uidset = ev.get("uidset")
            gone = st2.expunge(sn, _parse_set(uidset) if uidset else None)
            _sync(st2, sn)
            yield out(st2, ("OK", tuple(sorted(m.cid for m in gone))))
        elif op == "close":
            st2.close(sn)
            yield out(st2, ("OK",))
        elif op == "append":
            st2.append(ev["m"], ev["cid"], ev.get("flags", "").split(), None)
            _sync(st2, sn)
            yield out(st2, ("OK",))
        elif op in ("select", "examine"):
            st2.select(sn, ev["m"], op == "examine")
            yield out(st2, ("OK",))
        elif op == "delete":
            st2.delete(ev["m"])
            yield out(st2, ("OK",))
        elif op == "rename":
            st2.rename(ev["m"], ev["to"])
            yield out(st2, ("OK",))
        elif op == "create":
            st2.create(ev["m"])
            yield out(st2, ("OK",))
        elif op in ("subscribe", "unsubscribe"):
            st2.subscribe(ev["m"], op == "subscribe")
            yield out(st2, ("OK",))
        elif op == "status":
            if st2.mb(ev["m"]) is None or st2.mb(ev["m"]).noselect:
                raise Refused(("NO",), "no such mailbox")
            yield out(st2, ("OK",))
        else:
            raise ValueError(op)
    except Refused:
        yield out(st.clone(), ("REFUSED",))


def _match(key: str, m) -> bool:
    k = key.upper()
    table = {"DELETED": "\\Deleted", "SEEN": "\\Seen", "FLAGGED": "\\Flagged", "ANSWERED": "\\Answered", "DRAFT": "\\Draft"}
    if k == "ALL":
        return True
    if k in table:
        return table[k] in m.flags
    if k.startswith("UN") and k[2:] in table:
        return table[k[2:]] not in m.flags
    if k.startswith("KEYWORD "):
        return key.split()[1] in m.flags
    if k.startswith("UNKEYWORD "):
        return key.split()[1] not in m.flags
    raise ValueError(key)
