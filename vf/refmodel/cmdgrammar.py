"""
An independent recogniser of the IMAP command grammar, written from the ABNF of RFC 3501 section 9
plus the extensions asimap advertises (IDLE RFC 2177, NAMESPACE RFC 2342, ID RFC 2971, UIDPLUS RFC 4315
(UID EXPUNGE), LITERAL+ RFC 7888, UNSELECT RFC 3691, MOVE RFC 6851, LIST-EXTENDED RFC 5258, LIST-STATUS
RFC 5819, SPECIAL-USE RFC 6154).  It shares no code with asimap/parse.py.

    recognise(line) -> ("ok", meaning) | ("bad", why) | ("dontcare", why)

`meaning` uses the vocabulary of vf/props/c08.py (`meaning()` of a parsed IMAPClientCommand).
"dontcare": the line is syntactically in the language but carries a value with no meaning (31-Feb-2020,
25:61:00): either answer of the implementation is accepted.

Readings the recogniser commits to (stated in the evidence):
  * octets >= 0x80 are accepted wherever a 7-bit TEXT-CHAR / ATOM-CHAR is (asimap advertises nothing
    that forbids them and the de-facto reading is unambiguous);
  * the line is the complete command without its final CRLF.

`relax` names deliberate relaxations of the grammar, one per leniency class.  They are never on when a
verdict is formed; the C08 check switches them on one at a time only to *name* the class of an over-acceptance
it has already established (so that a known finding can be matched narrowly).
"""

from __future__ import annotations

import datetime

MONTHS = {m: i + 1 for i, m in enumerate(["jan", "feb", "mar", "apr", "may", "jun", "jul", "aug", "sep", "oct", "nov", "dec"])}
ATOM_SPECIALS = set('(){ %*"\\]') | {chr(c) for c in range(0, 32)} | {"\x7f"}
RELAXATIONS = [
    "empty-fetch-list", "empty-search-list", "empty-pattern-list", "empty-status-list", "section-zero", "section-trailing-dot", "section-missing-dot", "partial-zero-count",
    "leading-zero", "zero-in-set", "lsub-extended", "rbracket-in-atom", "sasl-ir",
]


SYSTEM_FLAGS = {x.lower(): x for x in ("\\Answered", "\\Flagged", "\\Deleted", "\\Seen", "\\Draft", "\\Recent")}


class Reject(Exception):
    pass


class DontCare(Exception):
    pass


class P:
    def __init__(self, s: str, relax=()):
        self.s = s
        self.i = 0
        self.relax = set(relax)
        self.dontcare = None

    # -- primitives ------------------------------------------------------------------------
    def peek(self, n=1):
        return self.s[self.i : self.i + n]

    def eof(self):
        return self.i >= len(self.s)

    def lit(self, text, ci=True):
        got = self.s[self.i : self.i + len(text)]
        if (got.lower() == text.lower()) if ci else (got == text):
            self.i += len(text)
            return True
        return False

    def need(self, text, ci=True):
        if not self.lit(text, ci):
            raise Reject(f"expected {text!r} at {self.i}")

    def sp(self):
        self.need(" ")

    def run(self, pred):
        j = self.i
        while j < len(self.s) and pred(self.s[j]):
            j += 1
        out = self.s[self.i : j]
        self.i = j
        return out

    # -- lexical -----------------------------------------------------------------------------
    def atom_char(self, c, astring=False, listchars=False):
        if c in ATOM_SPECIALS:
            if c == "]" and (astring or listchars or "rbracket-in-atom" in self.relax):
                return True
            if c in "%*" and listchars:
                return True
            return False
        return True

    def atom(self):
        a = self.run(lambda c: self.atom_char(c))
        if not a:
            raise Reject(f"expected atom at {self.i}")
        return a

    def tag(self):
        t = self.run(lambda c: self.atom_char(c, astring=True) and c != "+")
        if not t:
            raise Reject("no tag")
        return t

    def number(self, nz=False):
        d = self.run(lambda c: c in "0123456789")
        if not d:
            raise Reject(f"expected number at {self.i}")
        if len(d) > 1 and d[0] == "0" and nz and "leading-zero" not in self.relax:
            raise Reject("nz-number with leading zero")
        if nz and int(d) == 0:
            raise Reject("nz-number is zero")
        return int(d)

    def quoted(self):
        self.need('"')
        out = []
        while True:
            if self.eof():
                raise Reject("unterminated quoted string")
            c = self.s[self.i]
            if c == '"':
                self.i += 1
                return "".join(out)
            if c in "\r\n":
                raise Reject("CR/LF in quoted string")
            if c == "\\":
                n = self.s[self.i + 1 : self.i + 2]
                if n not in ('"', "\\"):
                    raise Reject("bad escape in quoted string")
                out.append(n)
                self.i += 2
                continue
            out.append(c)
            self.i += 1

    def literal(self):
        self.need("{")
        n = self.number()
        self.lit("+", ci=False)
        self.need("}")
        self.need("\r\n", ci=False)
        if self.i + n > len(self.s):
            raise Reject("literal shorter than announced")
        out = self.s[self.i : self.i + n]
        self.i += n
        return out

    def string(self):
        if self.peek() == '"':
            return self.quoted()
        if self.peek() == "{":
            return self.literal()
        raise Reject(f"expected string at {self.i}")

    def astring(self):
        if self.peek() in ('"', "{"):
            return self.string()
        a = self.run(lambda c: self.atom_char(c, astring=True))
        if not a:
            raise Reject(f"expected astring at {self.i}")
        return a

    def nstring(self):
        if self.peek() not in ('"', "{") and self.lit("nil"):
            return None
        return self.string()

    def mailbox(self):
        return self.astring()

    def list_mailbox(self):
        if self.peek() in ('"', "{"):
            return self.string()
        a = self.run(lambda c: self.atom_char(c, listchars=True))
        if not a:
            raise Reject(f"expected list-mailbox at {self.i}")
        return a

    def paren_list(self, item, minimum=1, relax_empty=None):
        self.need("(")
        out = []
        if self.lit(")"):
            if minimum == 0 or (relax_empty and relax_empty in self.relax):
                return out
            raise Reject("empty list")
        while True:
            out.append(item())
            if self.lit(")"):
                return out
            self.sp()

    # -- sequence sets --------------------------------------------------------------------------
    def seq_number(self):
        if self.lit("*"):
            return "*"
        d = self.run(lambda c: c in "0123456789")
        if not d:
            raise Reject(f"expected seq-number at {self.i}")
        if int(d) == 0 and "zero-in-set" not in self.relax:
            raise Reject("0 in sequence set")
        if len(d) > 1 and d[0] == "0" and "leading-zero" not in self.relax:
            raise Reject("leading zero in sequence set")
        return int(d)

    def sequence_set(self):
        out = []
        while True:
            a = self.seq_number()
            if self.lit(":"):
                b = self.seq_number()
                out.append((a, b))
            else:
                out.append(a)
            if not self.lit(","):
                return out

    # -- flags, dates ------------------------------------------------------------------------------
    def flag(self):
        if self.lit("\\", ci=False):
            f = "\\" + self.atom()
            return SYSTEM_FLAGS.get(f.lower(), f)  # the names of the system flags are case-insensitive
        return self.atom()

    def flag_list(self):
        return self.paren_list(self.flag, minimum=0)

    def date_text(self):
        d = self.run(lambda c: c in "0123456789")
        if not 1 <= len(d) <= 2:
            raise Reject("date-day")
        self.need("-")
        mon = self.s[self.i : self.i + 3].lower()
        if mon not in MONTHS:
            raise Reject("date-month")
        self.i += 3
        self.need("-")
        y = self.run(lambda c: c in "0123456789")
        if len(y) != 4:
            raise Reject("date-year")
        try:
            return datetime.date(int(y), MONTHS[mon], int(d))
        except ValueError:
            self.dontcare = "date without a meaning"
            return None

    def date(self):
        if self.lit('"'):
            d = self.date_text()
            self.need('"')
            return d
        return self.date_text()

    def date_time(self):
        self.need('"')
        dd = self.s[self.i : self.i + 2]
        if not (len(dd) == 2 and dd[1].isdigit() and dd[1].isascii() and (dd[0] == " " or (dd[0].isdigit() and dd[0].isascii()))):
            raise Reject("date-day-fixed")
        self.i += 2
        self.need("-")
        mon = self.s[self.i : self.i + 3].lower()
        if mon not in MONTHS:
            raise Reject("date-month")
        self.i += 3
        self.need("-")

        def digits(n):
            x = self.s[self.i : self.i + n]
            if len(x) != n or not all(c in "0123456789" for c in x):
                raise Reject("digits")
            self.i += n
            return int(x)

        y = digits(4)
        self.sp()
        hh = digits(2)
        self.need(":")
        mm = digits(2)
        self.need(":")
        ss = digits(2)
        self.sp()
        sign = self.peek()
        if sign not in "+-" or not sign:
            raise Reject("zone")
        self.i += 1
        zh, zm = digits(2), digits(2)
        self.need('"')
        try:
            datetime.datetime(y, MONTHS[mon], int(dd), hh, mm, ss)
            if zm > 59 or zh > 23:
                raise ValueError
        except ValueError:
            self.dontcare = "date-time without a meaning"
            return None
        off = (zh * 60 + zm) * (-1 if sign == "-" else 1)
        return (y, MONTHS[mon], int(dd), hh, mm, ss, off)

    # -- fetch -------------------------------------------------------------------------------------
    def header_list(self):
        return self.paren_list(self.astring, minimum=1)

    def section(self):
        self.need("[")
        sect = []
        if self.lit("]"):
            return sect
        # section-part = nz-number *("." nz-number)
        while self.peek() and self.peek() in "0123456789":
            n = self.number(nz="section-zero" not in self.relax)
            sect.append(n)
            if self.lit("."):
                if self.peek() == "]" and "section-trailing-dot" in self.relax:
                    break
                continue
            if "section-missing-dot" in self.relax and self.peek() != "]":
                break
            self.need("]")
            return sect
        texts = ["header.fields.not", "header.fields", "header", "text"] + (["mime"] if sect else [])
        for t in texts:
            if self.lit(t):
                if t.startswith("header.fields"):
                    self.sp()
                    sect.append((t, self.header_list()))
                else:
                    sect.append(t)
                break
        else:
            if not (sect and "section-trailing-dot" in self.relax and self.peek() == "]"):
                raise Reject("section text")
        self.need("]")
        return sect

    def fetch_att(self):
        names = ["envelope", "flags", "internaldate", "rfc822.header", "rfc822.size", "rfc822.text", "rfc822", "uid", "bodystructure", "body.peek", "body"]
        for n in names:
            if self.lit(n):
                break
        else:
            raise Reject("fetch-att")
        if n == "rfc822":
            return ("body", [], None, False)
        if n == "rfc822.header":
            return ("body", ["header"], None, True)
        if n == "rfc822.text":
            return ("body", ["text"], None, False)
        if n == "body" and self.peek() != "[":
            return ("bodystructure", None, None, False)
        if n in ("body", "body.peek"):
            sect = self.section()
            partial = None
            if self.lit("<"):
                a = self.number()
                self.need(".")
                b = self.number(nz="partial-zero-count" not in self.relax)
                self.need(">")
                partial = (a, b)
            return ("body", sect, partial, n == "body.peek")
        return (n, None, None, False)

    def fetch_atts(self):
        F, I, S, E = ("flags", None, None, False), ("internaldate", None, None, False), ("rfc822.size", None, None, False), ("envelope", None, None, False)
        if self.peek() == "(":
            return self.paren_list(self.fetch_att, minimum=1, relax_empty="empty-fetch-list")
        for macro, val in (("all", [F, I, S, E]), ("full", [F, I, S, E, ("bodystructure", None, None, False)]), ("fast", [F, I, S])):
            j = self.i
            if self.lit(macro) and self.eof():
                return val
            self.i = j
        return [self.fetch_att()]

    # -- search ------------------------------------------------------------------------------------
    def search_key(self):
        if self.peek() == "(":
            keys = self.paren_list(self.search_key, minimum=1, relax_empty="empty-search-list")
            return keys[0] if len(keys) == 1 else ("and", keys)
        c = self.peek()
        if c and (c in "0123456789*"):
            return ("message_set", self.sequence_set())
        word = self.run(lambda ch: ch.isascii() and ch.isalpha()).lower()
        kw = lambda f: ("keyword", f)  # noqa: E731
        simple = {
            "all": ("all",), "answered": kw("\\Answered"), "deleted": kw("\\Deleted"), "flagged": kw("\\Flagged"), "seen": kw("\\Seen"), "draft": kw("\\Draft"),
            "recent": kw("\\Recent"), "unanswered": ("not", kw("\\Answered")), "undeleted": ("not", kw("\\Deleted")), "unflagged": ("not", kw("\\Flagged")),
            "unseen": ("not", kw("\\Seen")), "undraft": ("not", kw("\\Draft")), "new": ("and", [kw("\\Recent"), ("not", kw("\\Seen"))]), "old": ("not", kw("\\Recent")),
        }
        if word in simple:
            return simple[word]
        if word in ("bcc", "cc", "from", "subject", "to"):
            self.sp()
            return ("header", word, self.astring().lower())
        if word in ("body", "text"):
            self.sp()
            return (word, self.astring().lower())
        if word in ("before", "on", "since", "sentbefore", "senton", "sentsince"):
            self.sp()
            return (word, self.date())
        if word == "header":
            self.sp()
            name = self.astring().lower()
            self.sp()
            return ("header", name, self.astring().lower())
        if word in ("keyword", "unkeyword"):
            self.sp()
            k = ("keyword", self.atom())
            return k if word == "keyword" else ("not", k)
        if word in ("larger", "smaller"):
            self.sp()
            return (word, self.number())
        if word == "not":
            self.sp()
            return ("not", self.search_key())
        if word == "or":
            self.sp()
            a = self.search_key()
            self.sp()
            return ("or", [a, self.search_key()])
        if word == "uid":
            self.sp()
            return ("uid", self.sequence_set())
        raise Reject(f"unknown search key {word!r}")

    # -- commands ------------------------------------------------------------------------------------
    def command(self):
        self.tag()
        self.sp()
        name = self.atom().lower()
        m = {"command": name, "uid": False}
        if name == "uid":
            self.sp()
            name = self.atom().lower()
            if name not in ("copy", "fetch", "search", "store", "expunge", "move"):
                raise Reject("not a UID command")
            m = {"command": name, "uid": True}
        self.args(name, m)
        if not self.eof():
            raise Reject(f"input left after the command at {self.i}")
        return m

    def args(self, name, m):
        if name in ("capability", "noop", "logout", "check", "close", "idle", "namespace", "unselect"):
            return
        if name == "expunge":
            if m["uid"]:
                self.sp()
                m["msg_set"] = self.sequence_set()
            return
        if name == "authenticate":
            self.sp()
            self.atom()
            if "sasl-ir" in self.relax and self.lit(" "):
                self.run(lambda c: c.isascii() and (c.isalnum() or c in "+/="))
            return
        if name == "login":
            self.sp()
            m["user"] = self.astring()
            self.sp()
            m["password"] = self.astring()
            return
        if name in ("select", "examine", "create", "delete", "subscribe", "unsubscribe"):
            self.sp()
            m["mailbox_name"] = self.mailbox()
            return
        if name == "rename":
            self.sp()
            m["src"] = self.mailbox()
            self.sp()
            m["dst"] = self.mailbox()
            return
        if name == "status":
            self.sp()
            m["mailbox_name"] = self.mailbox()
            self.sp()
            m["status"] = self.paren_list(self.status_att, minimum=1, relax_empty="empty-status-list")
            return
        if name in ("copy", "move"):
            self.sp()
            m["msg_set"] = self.sequence_set()
            self.sp()
            m["mailbox_name"] = self.mailbox()
            return
        if name == "fetch":
            self.sp()
            m["msg_set"] = self.sequence_set()
            self.sp()
            m["fetch"] = self.fetch_atts()
            return
        if name == "store":
            self.sp()
            m["msg_set"] = self.sequence_set()
            self.sp()
            m["store_action"] = "add" if self.lit("+") else "remove" if self.lit("-") else "replace"
            self.need("flags")
            m["silent"] = self.lit(".silent")
            self.sp()
            if self.peek() == "(":
                m["flags"] = self.flag_list()
            else:
                fl = [self.flag()]
                while self.lit(" "):
                    fl.append(self.flag())
                m["flags"] = fl
            return
        if name == "search":
            self.sp()
            m["charset"] = "us-ascii"
            j = self.i
            if self.lit("charset ") :
                m["charset"] = self.astring().lower()
                self.sp()
            else:
                self.i = j
            keys = [self.search_key()]
            while self.lit(" "):
                keys.append(self.search_key())
            m["search"] = ("and", keys)
            return
        if name == "append":
            self.sp()
            m["mailbox_name"] = self.mailbox()
            self.sp()
            m["flags"] = []
            m["date"] = None
            if self.peek() == "(":
                m["flags"] = self.flag_list()
                self.sp()
            if self.peek() == '"':
                m["date"] = self.date_time()
                self.sp()
            if self.peek() != "{":
                raise Reject("APPEND needs a literal")
            m["message_raw"] = self.literal()
            return
        if name in ("list", "lsub"):
            ext_ok = name == "list" or "lsub-extended" in self.relax
            self.sp()
            m.update({"sel": [], "ret": [], "status": [], "patterns": [], "list_mailbox": ""})
            if self.peek() == "(":
                if not ext_ok:
                    raise Reject("LSUB takes no selection options")
                opts = self.paren_list(lambda: self.option(("subscribed", "remote", "recursivematch", "special-use")), minimum=0)
                m["sel"] = sorted(set(opts))
                if "recursivematch" in opts and not (set(opts) - {"recursivematch", "remote"}):
                    raise Reject("RECURSIVEMATCH alone")
                self.sp()
            m["ref"] = self.mailbox()
            self.sp()
            if self.peek() == "(":
                if not ext_ok:
                    raise Reject("LSUB takes one pattern")
                pats = self.paren_list(self.list_mailbox, minimum=1, relax_empty="empty-pattern-list")
                m["patterns"] = ["inbox" if p.lower() == "inbox" else p for p in pats]
            else:
                m["list_mailbox"] = self.list_mailbox()
            if self.lit(" "):
                if not ext_ok:
                    raise Reject("LSUB takes no RETURN")
                self.need("return")
                self.sp()
                m["ret"] = sorted(set(self.paren_list(lambda: self.return_option(m), minimum=0)))
            return
        if name == "id":
            self.sp()
            m["id"] = {}
            if self.peek() == "(":
                self.need("(")
                if not self.lit(")"):
                    while True:
                        k = self.string()
                        self.sp()
                        m["id"][k] = self.nstring()
                        if self.lit(")"):
                            break
                        self.sp()
            elif not self.lit("nil"):
                raise Reject("id-params-list")
            return
        raise Reject(f"unknown command {name!r}")

    def status_att(self):
        for a in ("messages", "recent", "uidnext", "uidvalidity", "unseen"):
            if self.lit(a):
                return a
        raise Reject("status-att")

    def option(self, allowed):
        a = self.atom().lower()
        if a not in allowed:
            raise Reject(f"unknown option {a}")
        return a

    def return_option(self, m):
        a = self.option(("subscribed", "children", "status", "special-use"))
        if a == "status":
            self.sp()
            m["status"] = self.paren_list(self.status_att, minimum=1)
        return a


def recognise(line: str, relax=()):
    p = P(line, relax)
    try:
        m = p.command()
    except Reject as e:
        return ("bad", str(e))
    except (IndexError, ValueError) as e:  # pragma: no cover - a bug in the recogniser must be loud
        raise AssertionError(f"recogniser bug on {line!r}: {e!r}") from e
    if p.dontcare:
        return ("dontcare", p.dontcare)
    return ("ok", m)


def classify_overacceptance(line: str):
    """The smallest set of named relaxations under which `line` is in the language, or None."""
    for r in RELAXATIONS:
        if recognise(line, (r,))[0] != "bad":
            return r
    for i, a in enumerate(RELAXATIONS):
        for b in RELAXATIONS[i + 1:]:
            if recognise(line, (a, b))[0] != "bad":
                return a + "+" + b
    if recognise(line, RELAXATIONS)[0] != "bad":
        return "several"
    return None
