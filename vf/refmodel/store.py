"""
A deliberately boring reference model of an IMAP message store: plain Python data, no
asyncio, no files.  It defines only what the properties constrain.

Flags: \\Recent and the derived MH marker `unseen` are *not* modelled (see DESIGN 3.5).
"""

from __future__ import annotations

import copy
from dataclasses import dataclass, field

from . import sets as S

SYSTEM = {"\\Seen", "\\Answered", "\\Flagged", "\\Deleted", "\\Draft"}


SYSTEM_FLAGS = {x.lower(): x for x in ("\\Seen", "\\Answered", "\\Flagged", "\\Deleted", "\\Draft")}


def norm_flags(flags) -> frozenset:
    """Flags as compared by the oracles: drop \\Recent and the derived `unseen`."""
    out = set()
    for f in flags:
        f = str(f)
        if f.lower() == "\\recent" or f == "unseen":
            continue
        out.add(SYSTEM_FLAGS.get(f.lower(), f))  # system flag names are case-insensitive (RFC 3501 section 9: flag names are atoms compared ...)
    return frozenset(out)


@dataclass
class Msg:
    uid: int
    cid: str
    flags: set
    idate: int | None = None  # epoch seconds if known


@dataclass
class Mbox:
    name: str
    vv: int | None = None  # learned from the implementation on first sight (it is an opaque value)
    uidnext: int = 1
    msgs: list = field(default_factory=list)
    noselect: bool = False
    subscribed: bool = False

    def uids(self):
        return [m.uid for m in self.msgs]

    def by_uid(self, u):
        for m in self.msgs:
            if m.uid == u:
                return m
        return None


@dataclass
class Sess:
    name: str
    selected: str | None = None
    readonly: bool = False
    idling: bool = False
    view: list = field(default_factory=list)  # uids, as replayed from what the session was sent
    max_seen_uid: int = 0
    dead: bool = False


class Refused(Exception):
    """The model says the command must be refused (NO or BAD); .kinds = allowed conditions."""

    def __init__(self, kinds=("NO", "BAD"), why=""):
        self.kinds = tuple(kinds)
        self.why = why


def canon_name(n: str) -> str:
    if n.startswith("/"):
        n = n[1:]
    return "INBOX" if n.upper() == "INBOX" else n


class Store:
    def __init__(self):
        self.mboxes: dict[str, Mbox] = {}
        self.sess: dict[str, Sess] = {}
        self.vv_history: dict[str, list] = {}

    def clone(self) -> "Store":
        return copy.deepcopy(self)

    # -- helpers -----------------------------------------------------------------------
    def mb(self, name: str) -> Mbox | None:
        return self.mboxes.get(canon_name(name))

    def add_mbox(self, name: str, msgs=(), uidnext=None, subscribed=False) -> Mbox:
        name = canon_name(name)
        m = Mbox(name)
        for uid, cid, flags, idate in msgs:
            m.msgs.append(Msg(uid, cid, set(flags), idate))
        m.uidnext = uidnext if uidnext is not None else (max([x.uid for x in m.msgs], default=0) + 1)
        m.subscribed = subscribed
        self.mboxes[name] = m
        return m

    def session(self, name: str) -> Sess:
        if name not in self.sess:
            self.sess[name] = Sess(name)
        return self.sess[name]

    def selected_mbox(self, s: Sess) -> Mbox:
        if s.selected is None:
            raise Refused(("NO", "BAD"), "not selected")
        m = self.mboxes.get(s.selected)
        if m is None:
            raise Refused(("NO", "BAD", "BYE"), "selected mailbox is gone")
        return m

    # -- resolving message sets -------------------------------------------------------------
    def resolve(self, s: Sess, elems, uid: bool, sync_first: bool = False) -> list[Msg]:
        """Messages a set denotes for session s.  Non-UID sets are positions in the *server*
        list, which the property requires to coincide with the session's view whenever a
        non-UID command is accepted."""
        m = self.selected_mbox(s)
        if uid:
            want = S.denote_uid(elems, m.uids(), lenient_zero=True)
            return [x for x in m.msgs if x.uid in want]
        # A command that goes through the mailbox first makes the server look at the folder and
        # announce (EXISTS) what it finds, so numbers -- and `*` -- are resolved against the view
        # extended by the messages the session has not been told about yet.  (If the server
        # does not announce them, its FETCH/STORE responses name positions outside the replayed
        # view, which the stream monitor reports.)
        view = s.view + [u for u in m.uids() if u not in s.view and u > s.max_seen_uid]
        if sync_first:
            # COPY/MOVE may be sent EXPUNGE responses: the server flushes them first and the
            # numbers then denote positions in the renumbered view
            view = [u for u in view if u in m.uids()]
        try:
            pos = S.denote_seq(elems, len(view))
        except S.Invalid:
            raise Refused(("BAD",), "message number outside the view")
        uids = {view[i - 1] for i in pos}
        return [x for x in m.msgs if x.uid in uids]

    def view_in_sync(self, s: Sess) -> bool:
        """False iff the session still has to be sent EXPUNGEs (its view holds removed messages)."""
        m = self.mboxes.get(s.selected) if s.selected else None
        return m is not None and all(u in m.uids() for u in s.view)

    # -- operations ---------------------------------------------------------------------------
    def select(self, sn: str, name: str, readonly=False):
        s = self.session(sn)
        # "SELECT ... even if the attempt fails, deselects"
        s.selected, s.view, s.idling = None, [], False
        s.orphaned = False
        m = self.mb(name)
        if m is None or m.noselect:
            raise Refused(("NO",), "no such / not selectable mailbox")
        s.selected, s.readonly = m.name, readonly
        s.view = m.uids()
        s.max_seen_uid = max(s.view, default=0)
        return m

    def unselect(self, sn: str):
        s = self.session(sn)
        if s.selected is None:
            raise Refused(("NO", "BAD"))
        s.selected, s.view, s.idling = None, [], False

    def close(self, sn: str):
        s = self.session(sn)
        if s.selected is None:
            raise Refused(("NO", "BAD"))
        m = self.mboxes.get(s.selected)
        removed = []
        if m is not None and not s.readonly:
            removed = [x for x in m.msgs if "\\Deleted" in x.flags]
            m.msgs = [x for x in m.msgs if "\\Deleted" not in x.flags]
        s.selected, s.view, s.idling = None, [], False
        return removed

    def append(self, name: str, cid: str, flags, idate) -> tuple[Mbox, Msg]:
        m = self.mb(name)
        if m is None or m.noselect:
            raise Refused(("NO",), "TRYCREATE")
        msg = Msg(m.uidnext, cid, set(norm_flags(flags)), idate)
        m.uidnext += 1
        m.msgs.append(msg)
        return m, msg

    def deliver(self, name: str, cid: str, unseen: bool, idate=None, flags=()) -> Msg:
        m = self.mb(name)
        msg = Msg(m.uidnext, cid, (set() if unseen else {"\\Seen"}) | set(flags), idate)
        m.uidnext += 1
        m.msgs.append(msg)
        return msg

    def store(self, sn: str, elems, mode: str, flags, uid=False) -> list[Msg]:
        s = self.session(sn)
        self.selected_mbox(s)
        if any(str(f).lower() == "\\recent" for f in flags):
            raise Refused(("NO", "BAD"), "\\Recent is not settable")
        tgt = self.resolve(s, elems, uid)
        if s.readonly:
            return tgt  # EXAMINE: no change whatever the answer is
        fl = set(norm_flags(flags))
        for x in tgt:
            if mode == "+":
                x.flags |= fl
            elif mode == "-":
                x.flags -= fl
            else:
                x.flags = set(fl)
        return tgt

    def fetch(self, sn: str, elems, uid=False, sets_seen=False) -> list[Msg]:
        s = self.session(sn)
        self.selected_mbox(s)
        tgt = self.resolve(s, elems, uid)
        if sets_seen and not s.readonly:
            for x in tgt:
                x.flags.add("\\Seen")
        return tgt

    def expunge(self, sn: str, uid_elems=None) -> list[Msg]:
        s = self.session(sn)
        m = self.selected_mbox(s)
        if s.readonly:
            return []
        if uid_elems is not None:
            want = S.denote_uid(uid_elems, m.uids(), lenient_zero=True)
            gone = [x for x in m.msgs if "\\Deleted" in x.flags and x.uid in want]
        else:
            gone = [x for x in m.msgs if "\\Deleted" in x.flags]
        ids = {x.uid for x in gone}
        m.msgs = [x for x in m.msgs if x.uid not in ids]
        return gone

    def copy(self, sn: str, elems, dst: str, uid=False, move=False):
        s = self.session(sn)
        src = self.selected_mbox(s)
        if move and s.readonly:
            raise Refused(("NO",), "read-only")
        # the numbers of a non-UID COPY / MOVE mean what they mean in the view the session has been told about, exactly as for
        # FETCH / STORE / SEARCH (an EXPUNGE response may be *sent* during COPY, but the numbers were chosen before it)
        tgt = self.resolve(s, elems, uid, sync_first=False)
        d = self.mb(dst)
        if d is None or d.noselect:
            raise Refused(("NO",), "TRYCREATE")
        new = []
        for x in tgt:
            nm = Msg(d.uidnext, x.cid, set(x.flags), x.idate)
            d.uidnext += 1
            d.msgs.append(nm)
            new.append(nm)
        if move:
            ids = {x.uid for x in tgt}
            src.msgs = [x for x in src.msgs if x.uid not in ids]
        return tgt, new, d

    def restart(self):
        self.sess = {}


# ---------------------------------------------------------------------------------------------
# namespace operations (methods added to Store below to keep the message part readable)
def _children(self, name: str):
    if name == "INBOX":  # the inbox folder is `inbox` on disk: inbox/x is its inferior
        return [n for n in self.mboxes if n.lower().startswith("inbox/")]
    return [n for n in self.mboxes if n.startswith(name + "/")]


def _parents(name: str):
    parts = name.split("/")
    return ["/".join(parts[:i]) for i in range(1, len(parts))]


def create(self, name: str):
    name = canon_name(name)
    if name == "INBOX" or not name.strip() or name.endswith("/") or "//" in name:
        raise Refused(("NO", "BAD"), "invalid name")
    m = self.mboxes.get(name)
    if m is not None and not m.noselect:
        raise Refused(("NO",), "exists")
    made = []
    for p in _parents(name) + [name]:
        if p.upper() == "INBOX":
            continue
        ex = self.mboxes.get(p)
        if ex is None:
            self.mboxes[p] = Mbox(p)
            made.append(p)
        elif ex.noselect and p == name:
            ex.noselect = False
            ex.vv = None  # a new incarnation: must get a fresh UIDVALIDITY
            ex.msgs = []
            made.append(p)
    return made


def delete(self, name: str):
    name = canon_name(name)
    if name == "INBOX":
        raise Refused(("NO",), "INBOX")
    m = self.mboxes.get(name)
    if m is None:
        raise Refused(("NO",), "no such mailbox")
    kids = _children(self, name)
    if m.noselect and (kids or m.subscribed):
        raise Refused(("NO",), "already deleted")
    if kids or m.subscribed:
        # asimap keeps a \\Noselect placeholder for a mailbox with inferiors -- and, as its
        # documented extra rule, for a subscribed one
        m.msgs = []
        m.noselect = True
        m.vv = None
        m.uidnext_floor = m.uidnext
        placeholder = True
    else:
        del self.mboxes[name]
        placeholder = False
    for s in self.sess.values():
        if s.selected == name:
            s.selected, s.view, s.idling = None, [], False
            s.orphaned = True
    return placeholder


def rename(self, old: str, new: str):
    old, new = canon_name(old), canon_name(new)
    m = self.mboxes.get(old)
    if m is None:
        raise Refused(("NO",), "no such mailbox")
    if new in self.mboxes or new == "INBOX" or not new.strip():
        raise Refused(("NO", "BAD"), "destination exists / invalid")
    if new.startswith(old + "/"):
        raise Refused(("NO", "BAD"), "destination is an inferior of the source")
    if old == "INBOX":
        created = create(self, new)
        d = self.mboxes[new]
        for x in m.msgs:
            d.msgs.append(Msg(d.uidnext, x.cid, set(x.flags), x.idate))  # the messages are moved: internal date and flags go with them
            d.uidnext += 1
        m.msgs = []
        return created
    for p in _parents(new):
        if p not in self.mboxes and p.upper() != "INBOX":
            self.mboxes[p] = Mbox(p)  # superior names are created, as for CREATE (RFC 3501 6.3.5)
    moved = []
    for n in [old] + _children(self, old):
        mb = self.mboxes.pop(n)
        nn = new + n[len(old):]
        mb.name = nn
        self.mboxes[nn] = mb
        moved.append((n, nn))
        for s in self.sess.values():
            if s.selected == n:
                s.selected = nn
    return moved


def subscribe(self, name: str, value: bool):
    m = self.mboxes.get(canon_name(name))
    if m is None:
        raise Refused(("NO",), "no such mailbox")
    m.subscribed = value


Store.create = create
Store.delete = delete
Store.rename = rename
Store.subscribe = subscribe
Store.children = _children
