"""LIST/LSUB reference: `*` / `%` matching by definition (no regular expressions)."""

from __future__ import annotations


def match(pattern: str, name: str) -> bool:
    """IMAP LIST wildcard match: * = any characters, % = any characters except '/'."""
    memo = {}

    def rec(i: int, j: int) -> bool:
        key = (i, j)
        if key in memo:
            return memo[key]
        if i == len(pattern):
            r = j == len(name)
        elif pattern[i] == "*":
            r = rec(i + 1, j) or (j < len(name) and rec(i, j + 1))
        elif pattern[i] == "%":
            r = rec(i + 1, j) or (j < len(name) and name[j] != "/" and rec(i, j + 1))
        else:
            r = j < len(name) and pattern[i] == name[j] and rec(i + 1, j + 1)
        memo[key] = r
        return r

    return rec(0, 0)


def canon_pattern(ref: str, pat: str) -> str:
    p = ref + pat
    if p.startswith("/"):
        p = p[1:]
    return p


def list_expect(store, ref: str, pat: str, lsub: bool = False):
    """{name: {'noselect': bool, 'haschildren': bool}} the model predicts."""
    p = canon_pattern(ref, pat)
    out = {}
    for name, mb in store.mboxes.items():
        if lsub and not mb.subscribed:
            continue
        cand = [name]
        if name == "INBOX":
            # INBOX is case-insensitive: a pattern is matched against it in any case
            ok = match(p, "INBOX") or match(p.upper(), "INBOX") or _ci_inbox(p)
        else:
            ok = match(p, name)
        if ok:
            out[name] = {"noselect": mb.noselect, "haschildren": bool(store.children(name))}
    return out


def _ci_inbox(p: str) -> bool:
    # literal (wildcard-free) pattern equal to inbox in any case
    return "*" not in p and "%" not in p and p.upper() == "INBOX"
