"""Independent evaluator of IMAP SEARCH programs (RFC 3501 6.4.4) over message facts."""

from __future__ import annotations

import datetime

MON = {m: i + 1 for i, m in enumerate("jan feb mar apr may jun jul aug sep oct nov dec".split())}


def pdate(s: str) -> datetime.date:
    d, m, y = s.strip('"').split("-")
    return datetime.date(int(y), MON[m.lower()], int(d))


SYS = {"ANSWERED": "\\Answered", "DELETED": "\\Deleted", "DRAFT": "\\Draft", "FLAGGED": "\\Flagged", "SEEN": "\\Seen", "RECENT": "\\Recent"}


def ev(p, m, ctx) -> bool:
    """p: program as nested tuples; m: facts dict; ctx: {'n':..., 'uids': [...]}"""
    op = p[0]
    if op == "and":
        return all(ev(x, m, ctx) for x in p[1])
    if op == "or":
        return ev(p[1], m, ctx) or ev(p[2], m, ctx)
    if op == "not":
        return not ev(p[1], m, ctx)
    if op == "all":
        return True
    if op in SYS:
        return SYS[op] in m["flags"]
    if op.startswith("UN") and op[2:] in SYS:
        return SYS[op[2:]] not in m["flags"]
    if op == "NEW":
        return "\\Recent" in m["flags"] and "\\Seen" not in m["flags"]
    if op == "OLD":
        return "\\Recent" not in m["flags"]
    if op == "KEYWORD":
        return p[1] in m["flags"]
    if op == "UNKEYWORD":
        return p[1] not in m["flags"]
    if op == "LARGER":
        return m["size"] > p[1]
    if op == "SMALLER":
        return m["size"] < p[1]
    if op == "BEFORE":
        return m["idate"] < pdate(p[1])
    if op == "ON":
        return m["idate"] == pdate(p[1])
    if op == "SINCE":
        return m["idate"] >= pdate(p[1])
    if op in ("SENTBEFORE", "SENTON", "SENTSINCE"):
        sd = m.get("sent")
        if sd is None:
            return False
        d = pdate(p[1])
        return {"SENTBEFORE": sd < d, "SENTON": sd == d, "SENTSINCE": sd >= d}[op]
    if op == "HEADER":
        vals = m["headers"].get(p[1].lower())
        if vals is None:
            return False
        return any(p[2].lower() in v.lower() for v in vals)
    if op in ("FROM", "TO", "CC", "BCC", "SUBJECT"):
        vals = m["headers"].get(op.lower())
        return vals is not None and any(p[1].lower() in v.lower() for v in vals)
    if op == "BODY":
        return p[1].lower() in m["body"].lower()
    if op == "TEXT":
        return p[1].lower() in m["text"].lower()
    if op == "UID":
        from . import sets as S

        return m["uid"] in S.denote_uid(p[1], ctx["uids"], lenient_zero=True)
    if op == "SEQ":
        from . import sets as S

        try:
            return m["seq"] in S.denote_seq(p[1], ctx["n"])
        except S.Invalid:
            return None
    raise ValueError(op)


def render(p) -> str:
    op = p[0]
    if op == "and":
        return "(" + " ".join(render(x) for x in p[1]) + ")"
    if op == "or":
        return f"OR {render(p[1])} {render(p[2])}"
    if op == "not":
        return f"NOT {render(p[1])}"
    if op == "all":
        return "ALL"
    if op in ("UID", "SEQ"):
        from .sets import set_str

        return ("UID " if op == "UID" else "") + set_str(p[1])
    if len(p) == 1:
        return op
    args = []
    for a in p[1:]:
        if isinstance(a, int):
            args.append(str(a))
        elif op in ("BEFORE", "ON", "SINCE", "SENTBEFORE", "SENTON", "SENTSINCE", "KEYWORD", "UNKEYWORD"):
            args.append(a)
        else:
            args.append('"' + a.replace("\\", "\\\\").replace('"', '\\"') + '"')
    return op + " " + " ".join(args)
