"""Reference denotation of IMAP sequence sets (RFC 3501 section 9 `sequence-set`)."""

from __future__ import annotations


def elem_str(e) -> str:
    if isinstance(e, tuple):
        return f"{elem_str(e[0])}:{elem_str(e[1])}"
    return str(e)


def set_str(elems) -> str:
    return ",".join(elem_str(e) for e in elems)


class Invalid(Exception):
    """The set names a position that does not exist (non-UID) / is not a sequence-set."""


def denote_seq(elems, n: int) -> set[int]:
    """Non-UID: positions 1..n.  `*` is n.  Any number outside 1..n -> Invalid."""
    out: set[int] = set()

    def val(x):
        if x == "*":
            if n == 0:
                raise Invalid("* on empty mailbox")
            return n
        if not (1 <= x <= n):
            raise Invalid(f"{x} outside 1..{n}")
        return x

    for e in elems:
        if isinstance(e, tuple):
            a, b = val(e[0]), val(e[1])
            lo, hi = min(a, b), max(a, b)
            out.update(range(lo, hi + 1))
        else:
            out.add(val(e))
    return out


def denote_uid(elems, uids: list[int], lenient_zero: bool = False) -> set[int]:
    """UID form: the existing UIDs named.  `*` is the highest UID.  0 -> Invalid (not an
    nz-number)."""
    out: set[int] = set()
    mx = uids[-1] if uids else 0
    present = set(uids)

    def val(x):
        if x == "*":
            return mx
        if x <= 0 and not lenient_zero:
            raise Invalid("0 is not an nz-number")
        return x

    for e in elems:
        if isinstance(e, tuple):
            a, b = val(e[0]), val(e[1])
            lo, hi = min(a, b), max(a, b)
            out.update(u for u in uids if lo <= u <= hi)
        else:
            v = val(e)
            if v in present:
                out.add(v)
    return out


def atoms(nmax: int):
    return list(range(0, nmax + 2)) + ["*"]


def elements(nmax: int):
    at = atoms(nmax)
    return at + [(a, b) for a in at for b in at]


def has_zero(elems) -> bool:
    for e in elems:
        for x in (e if isinstance(e, tuple) else (e,)):
            if x == 0:
                return True
    return False
