"""
Independent tokenizer/validator for IMAP4rev1 server output (RFC 3501 section 9) and a
small one for POP3 (RFC 1939).  Shares no code with asimap.

parse_stream(data) -> (responses, errors, rest)
  responses: list[Resp]; errors: list[str] (syntax violations, each naming the offending
  response); rest: trailing bytes that do not yet form a complete response.
"""

from __future__ import annotations

import re
from dataclasses import dataclass, field


class Atom(str):
    def __repr__(self):
        return f"Atom({str.__repr__(self)})"


class Lit(bytes):
    """A string that was sent as a literal {n}."""


class QStr(bytes):
    """A string that was sent quoted (value is the *decoded* content)."""


@dataclass
class Resp:
    kind: str  # 'untagged' | 'tagged' | 'cont'
    tag: str | None = None
    typ: str = ""  # OK NO BAD BYE PREAUTH EXISTS RECENT EXPUNGE FETCH SEARCH LIST LSUB STATUS FLAGS CAPABILITY NAMESPACE ID ...
    num: int | None = None
    code: list | None = None  # response code tokens for OK/NO/BAD/BYE
    text: str | None = None
    data: list = field(default_factory=list)
    raw: bytes = b""
    errors: list = field(default_factory=list)

    def __repr__(self):
        return f"<Resp {self.raw[:80]!r}>"


class SyntaxErr(Exception):
    pass


_LITERAL_TAIL = re.compile(rb"\{(\d+)\}$")


def split_responses(data: bytes):
    """Split into complete responses honouring literals by count.
    Returns (list of raw response bytes, rest)."""
    out = []
    pos = 0
    n = len(data)
    start = 0
    while True:
        i = data.find(b"\r\n", pos)
        if i < 0:
            return out, data[start:]
        line = data[pos:i]
        m = _LITERAL_TAIL.search(line)
        if m:
            cnt = int(m.group(1))
            if i + 2 + cnt > n:
                return out, data[start:]
            pos = i + 2 + cnt
            continue
        out.append(data[start : i + 2])
        pos = start = i + 2


class _P:
    """Recursive-descent over one raw response (which may embed literals)."""

    def __init__(self, raw: bytes):
        self.b = raw
        self.i = 0

    def peek(self) -> int | None:
        return self.b[self.i] if self.i < len(self.b) else None

    def eat(self, c: bytes):
        if self.b[self.i : self.i + len(c)] != c:
            raise SyntaxErr(f"expected {c!r} at {self.i}: {self.b[self.i:self.i+20]!r}")
        self.i += len(c)

    def at_crlf(self):
        return self.b[self.i : self.i + 2] == b"\r\n" and self.i + 2 == len(self.b)

    def sp(self):
        self.eat(b" ")

    def number(self) -> int:
        j = self.i
        while j < len(self.b) and 48 <= self.b[j] <= 57:
            j += 1
        if j == self.i:
            raise SyntaxErr(f"number expected at {self.i}: {self.b[self.i:self.i+20]!r}")
        v = int(self.b[self.i : j])
        self.i = j
        return v

    def quoted(self) -> QStr:
        self.eat(b'"')
        out = bytearray()
        while True:
            c = self.peek()
            if c is None:
                raise SyntaxErr("unterminated quoted string")
            if c == 0x22:
                self.i += 1
                break
            if c == 0x5C:
                nx = self.b[self.i + 1] if self.i + 1 < len(self.b) else None
                if nx not in (0x22, 0x5C):
                    raise SyntaxErr(f"bad escape in quoted string at {self.i}")
                out.append(nx)
                self.i += 2
                continue
            if c in (0x0D, 0x0A, 0x00):
                raise SyntaxErr(f"raw CR/LF/NUL in quoted string at {self.i}")
            out.append(c)
            self.i += 1
        return QStr(bytes(out))

    def literal(self) -> Lit:
        self.eat(b"{")
        n = self.number()
        self.eat(b"}")
        self.eat(b"\r\n")
        if self.i + n > len(self.b):
            raise SyntaxErr("literal runs past end of response")
        v = self.b[self.i : self.i + n]
        self.i += n
        return Lit(v)

    ATOM_STOP = set(b' (){"\r\n\x7f') | set(range(0, 32))

    def atom(self) -> Atom:
        j = self.i
        b = self.b
        depth = 0
        pdepth = 0
        while j < len(b):
            c = b[j]
            if depth:
                if c in (0x0D, 0x0A):
                    raise SyntaxErr("CR/LF inside [section]")
                if c == 0x22:
                    # a header field name written as a quoted string (header-fld-name = astring): it may hold ] ( ) and SP
                    j += 1
                    while True:
                        if j >= len(b):
                            raise SyntaxErr("unterminated quoted string inside [section]")
                        q = b[j]
                        if q in (0x0D, 0x0A):
                            raise SyntaxErr("CR/LF inside [section]")
                        if q == 0x5C:
                            if j + 1 >= len(b) or b[j + 1] not in (0x22, 0x5C):
                                raise SyntaxErr("bad escape in a quoted string inside [section]")
                            j += 2
                            continue
                        j += 1
                        if q == 0x22:
                            break
                    continue
                if c == 0x28:
                    pdepth += 1
                elif c == 0x29:
                    pdepth -= 1
                    if pdepth < 0:
                        raise SyntaxErr("unbalanced ) inside [section]")
                if c == 0x5B:
                    depth += 1
                elif c == 0x5D:
                    depth -= 1
                    if depth == 0 and pdepth != 0:
                        raise SyntaxErr("unbalanced ( inside [section]")
                j += 1
                continue
            if c == 0x5B:  # '[' -- section spec may contain SP and parens
                depth = 1
                pdepth = 0
                j += 1
                continue
            if c == 0x5D:
                break
            if c in self.ATOM_STOP:
                break
            if c == 0x5C and j != self.i:
                raise SyntaxErr(f"backslash inside atom at {j}")
            j += 1
        if depth:
            raise SyntaxErr("unbalanced [ in atom")
        if j == self.i:
            raise SyntaxErr(f"atom expected at {self.i}: {b[self.i:self.i+20]!r}")
        v = b[self.i : j].decode("latin-1")
        self.i = j
        return Atom(v)

    def value(self):
        c = self.peek()
        if c is None:
            raise SyntaxErr("value expected, got end")
        if c == 0x28:
            return self.plist()
        if c == 0x22:
            return self.quoted()
        if c == 0x7B:
            return self.literal()
        a = self.atom()
        if a.upper() == "NIL":
            return None
        return a

    def plist(self) -> list:
        self.eat(b"(")
        out = []
        if self.peek() == 0x29:
            self.i += 1
            return out
        while True:
            out.append(self.value())
            c = self.peek()
            if c == 0x29:
                self.i += 1
                return out
            if c == 0x20:
                self.i += 1
                # tolerate nothing else: "( a  b)" double space is an error
                if self.peek() in (0x20, 0x29):
                    raise SyntaxErr(f"stray space in list at {self.i}")
                continue
            if c == 0x28:
                # adjacent lists without SP: legal in BODYSTRUCTURE multipart "(...)(...)"
                continue
            raise SyntaxErr(f"bad list separator at {self.i}: {self.b[self.i:self.i+20]!r}")

    def values_to_eol(self) -> list:
        out = []
        while not self.at_crlf():
            out.append(self.value())
            if self.at_crlf():
                break
            self.sp()
            if self.at_crlf():
                raise SyntaxErr("trailing space before CRLF")
        return out

    def text_to_eol(self) -> str:
        j = len(self.b) - 2
        if self.b[j:] != b"\r\n":
            raise SyntaxErr("response not CRLF-terminated")
        t = self.b[self.i : j]
        if b"\r" in t or b"\n" in t or b"\x00" in t:
            raise SyntaxErr("raw CR/LF/NUL in response text")
        self.i = len(self.b) - 2
        return t.decode("latin-1")

    def resp_text(self, r: Resp):
        if self.peek() == 0x5B:
            self.i += 1
            code = []
            while True:
                c = self.peek()
                if c is None or c in (0x0D, 0x0A):
                    raise SyntaxErr("unterminated response code")
                if c == 0x5D:
                    self.i += 1
                    break
                if c == 0x20:
                    self.i += 1
                    continue
                if c == 0x28:
                    code.append(self.plist())
                else:
                    j = self.i
                    while j < len(self.b) and self.b[j] not in b" ]\r\n(":
                        j += 1
                    code.append(Atom(self.b[self.i : j].decode("latin-1")))
                    self.i = j
            r.code = code
            # resp-text-code: one SP between the atoms; the codes with a fixed shape are checked (RFC 3501 7.1, RFC 4315)
            raw_code = self.b[: self.i]
            if b"  " in raw_code[raw_code.rfind(b"["):] or raw_code.endswith(b" ]"):
                raise SyntaxErr("response code: empty argument / doubled space")
            name = str(code[0]).upper() if code and isinstance(code[0], Atom) else ""
            args = [str(x) for x in code[1:]]
            uidset = re.compile(r"^\d+(:\d+)?(,\d+(:\d+)?)*$")
            if name in ("UIDVALIDITY", "UIDNEXT", "UNSEEN") and not (len(args) == 1 and args[0].isdigit() and int(args[0]) > 0):
                raise SyntaxErr(f"response code {name}: one nz-number expected")
            if name == "APPENDUID" and not (len(args) == 2 and args[0].isdigit() and uidset.match(args[1])):
                raise SyntaxErr("response code APPENDUID: uidvalidity and uid-set expected")
            if name == "COPYUID" and not (len(args) == 3 and args[0].isdigit() and uidset.match(args[1]) and uidset.match(args[2])):
                raise SyntaxErr("response code COPYUID: uidvalidity and two uid-sets expected")
            if self.peek() == 0x20:
                self.i += 1
        r.text = self.text_to_eol()


COND = {"OK", "NO", "BAD", "BYE", "PREAUTH"}
TAG_RE = re.compile(rb"^[^\x00-\x20\x7f(){%*\"\\+]+$")


def parse_response(raw: bytes) -> Resp:
    r = Resp(kind="?", raw=raw)
    p = _P(raw)
    try:
        if not raw.endswith(b"\r\n"):
            raise SyntaxErr("response not CRLF-terminated")
        if raw.startswith(b"+"):
            r.kind = "cont"
            p.i = 1
            if p.peek() == 0x20:
                p.i += 1
            r.text = p.text_to_eol()
            return r
        if raw.startswith(b"* "):
            r.kind = "untagged"
            p.i = 2
            c = p.peek()
            if c is not None and 48 <= c <= 57:
                r.num = p.number()
                p.sp()
                r.typ = str(p.atom()).upper()
                if r.typ in ("EXISTS", "RECENT", "EXPUNGE"):
                    if not p.at_crlf():
                        raise SyntaxErr("junk after message-data number response")
                elif r.typ == "FETCH":
                    p.sp()
                    r.data = p.plist()
                    if not p.at_crlf():
                        raise SyntaxErr("junk after FETCH list")
                    for k, v in zip(r.data[0::2], r.data[1::2]):
                        if isinstance(k, Atom) and str(k).upper() == "UID" and not str(v).isdigit():
                            raise SyntaxErr("FETCH UID is not a number")  # RFC 3501: "UID" SP uniqueid
                        if isinstance(k, Atom) and str(k).upper() == "BODYSTRUCTURE":
                            validate_body(v, "BODYSTRUCTURE", True)
                        if isinstance(k, Atom) and str(k).upper() == "BODY":
                            validate_body(v, "BODY", False)
                        if isinstance(k, Atom) and str(k).upper() == "ENVELOPE":
                            validate_envelope(v)
                else:
                    raise SyntaxErr(f"unknown numeric response {r.typ}")
                return r
            r.typ = str(p.atom()).upper()
            if r.typ in COND:
                p.sp()
                p.resp_text(r)
                return r
            if p.at_crlf():
                r.data = []
                return r  # e.g. "* SEARCH" with no hits
            p.sp()
            if r.typ == "SEARCH" and p.at_crlf():
                return r  # asimap sends "* SEARCH \r\n" for no hits; tolerated? -> flagged below
            r.data = p.values_to_eol()
            return r
        # tagged
        sp = raw.find(b" ")
        if sp <= 0:
            raise SyntaxErr("no tag")
        tag = raw[:sp]
        if not TAG_RE.match(tag):
            raise SyntaxErr(f"bad tag {tag!r}")
        r.kind = "tagged"
        r.tag = tag.decode("latin-1")
        p.i = sp + 1
        r.typ = str(p.atom()).upper()
        if r.typ not in ("OK", "NO", "BAD"):
            raise SyntaxErr(f"tagged response with condition {r.typ}")
        p.sp()
        p.resp_text(r)
        return r
    except SyntaxErr as e:
        r.errors.append(str(e))
        if r.kind == "?":
            r.kind = "garbage"
        return r
    except (IndexError, ValueError) as e:
        r.errors.append(f"tokenizer: {e!r}")
        return r


def parse_stream(data: bytes):
    raws, rest = split_responses(data)
    resps = [parse_response(x) for x in raws]
    errors = []
    for r in resps:
        for e in r.errors:
            errors.append(f"{e} :: {r.raw[:120]!r}")
        if r.kind == "untagged" and r.typ == "SEARCH" and r.raw.endswith(b" \r\n"):
            pass
    return resps, errors, rest


# --------------------------------------------------------------------------------------
# helpers over parsed responses
# --------------------------------------------------------------------------------------
# RFC 3501 section 9: the shapes of `body` (BODY / BODYSTRUCTURE) and `envelope`
def _is_str(x) -> bool:
    return isinstance(x, (bytes, bytearray))  # quoted string or literal (an atom or NIL is not a `string`)


def _nstring(x) -> bool:
    return x is None or _is_str(x)


def _fld_param(x, where):
    # body-fld-param = "(" string SP string *(SP string SP string) ")" / nil
    if x is None:
        return
    if not isinstance(x, list) or not x or len(x) % 2 or not all(_is_str(v) for v in x):
        raise SyntaxErr(f"{where}: body-fld-param must be NIL or a non-empty list of string pairs")


def _fld_dsp(x, where):
    # body-fld-dsp = "(" string SP body-fld-param ")" / nil
    if x is None:
        return
    if not isinstance(x, list) or len(x) != 2 or not _is_str(x[0]):
        raise SyntaxErr(f"{where}: body-fld-dsp must be NIL or (string body-fld-param)")
    _fld_param(x[1], where + " disposition")


def _fld_lang(x, where):
    # body-fld-lang = nstring / "(" string *(SP string) ")"
    if _nstring(x):
        return
    if not isinstance(x, list) or not x or not all(_is_str(v) for v in x):
        raise SyntaxErr(f"{where}: body-fld-lang must be an nstring or a non-empty list of strings")


def _number(x) -> bool:
    return isinstance(x, (str, int)) and str(x).isdigit()


def validate_envelope(e, where="ENVELOPE"):
    if not isinstance(e, list) or len(e) != 10:
        raise SyntaxErr(f"{where}: an envelope has 10 fields")
    for i in (0, 1, 8, 9):
        if not _nstring(e[i]):
            raise SyntaxErr(f"{where}: field {i} must be an nstring")
    for i in range(2, 8):
        a = e[i]
        if a is None:
            continue
        if not isinstance(a, list) or not a:
            raise SyntaxErr(f"{where}: address field {i} must be NIL or a non-empty list of addresses")
        for ad in a:
            if not isinstance(ad, list) or len(ad) != 4 or not all(_nstring(v) for v in ad):
                raise SyntaxErr(f"{where}: an address is (nstring nstring nstring nstring)")


def validate_body(b, where="BODY", ext_ok=True):
    if not isinstance(b, list) or not b:
        raise SyntaxErr(f"{where}: a body is a non-empty parenthesised list")
    if isinstance(b[0], list):  # body-type-mpart = 1*body SP media-subtype [SP body-ext-mpart]
        i = 0
        while i < len(b) and isinstance(b[i], list):
            validate_body(b[i], f"{where}.{i + 1}", ext_ok)
            i += 1
        if i >= len(b) or not _is_str(b[i]):
            raise SyntaxErr(f"{where}: multipart needs a media-subtype string after its parts")
        ext = b[i + 1:]
        if ext and not ext_ok:
            raise SyntaxErr(f"{where}: BODY (non-extensible form) must not carry extension data")
        if len(ext) >= 1:
            _fld_param(ext[0], where)
        if len(ext) >= 2:
            _fld_dsp(ext[1], where)
        if len(ext) >= 3:
            _fld_lang(ext[2], where)
        if len(ext) >= 4 and not _nstring(ext[3]):
            raise SyntaxErr(f"{where}: body-fld-loc must be an nstring")
        return
    if len(b) < 7 or not _is_str(b[0]) or not _is_str(b[1]):
        raise SyntaxErr(f"{where}: a single part starts with media type and subtype strings followed by body-fields")
    _fld_param(b[2], where)
    if not _nstring(b[3]) or not _nstring(b[4]) or not _is_str(b[5]) or not _number(b[6]):
        raise SyntaxErr(f"{where}: body-fields = param id desc enc octets")
    typ, sub = bytes(b[0]).upper(), bytes(b[1]).upper()
    i = 7
    if typ == b"MESSAGE" and sub == b"RFC822":
        if len(b) < 10:
            raise SyntaxErr(f"{where}: message/rfc822 needs envelope, body and line count")
        validate_envelope(b[7], where + " envelope")
        validate_body(b[8], where + ".1", ext_ok)
        if not _number(b[9]):
            raise SyntaxErr(f"{where}: line count must be a number")
        i = 10
    elif typ == b"TEXT":
        if len(b) < 8 or not _number(b[7]):
            raise SyntaxErr(f"{where}: text part needs a line count")
        i = 8
    ext = b[i:]
    if ext and not ext_ok:
        raise SyntaxErr(f"{where}: BODY (non-extensible form) must not carry extension data")
    if len(ext) >= 1 and not _nstring(ext[0]):
        raise SyntaxErr(f"{where}: body-fld-md5 must be an nstring")
    if len(ext) >= 2:
        _fld_dsp(ext[1], where)
    if len(ext) >= 3:
        _fld_lang(ext[2], where)
    if len(ext) >= 4 and not _nstring(ext[3]):
        raise SyntaxErr(f"{where}: body-fld-loc must be an nstring")


def fetch_items(r: Resp) -> dict:
    """FETCH msg-att list -> dict with upper-cased item names."""
    d = {}
    it = r.data
    if len(it) % 2:
        raise SyntaxErr(f"odd number of FETCH items: {r.raw[:100]!r}")
    for k, v in zip(it[0::2], it[1::2]):
        if not isinstance(k, Atom):
            raise SyntaxErr(f"FETCH item name is not an atom: {k!r}")
        d[str(k).upper()] = v
    if "UID" in d and not str(d["UID"]).isdigit():
        d["UID-INVALID"] = d.pop("UID")  # reported through Resp.errors by parse_response
    return d


def flags_of(v) -> frozenset:
    return frozenset(str(x) for x in (v or []))


# --------------------------------------------------------------------------------------
# POP3
def pop3_split(data: bytes, multiline_expected: list[bool]):
    """Split a POP3 server stream given, per command, whether a multi-line reply follows a
    +OK.  Returns list of (status_line, payload_lines|None), errors."""
    out, errs = [], []
    pos = 0
    for ml in multiline_expected:
        i = data.find(b"\r\n", pos)
        if i < 0:
            errs.append("missing status line")
            break
        status = data[pos:i]
        pos = i + 2
        if not (status.startswith(b"+OK") or status.startswith(b"-ERR")):
            errs.append(f"bad status line {status[:60]!r}")
        payload = None
        if ml and status.startswith(b"+OK"):
            lines = []
            while True:
                j = data.find(b"\r\n", pos)
                if j < 0:
                    errs.append("multi-line reply not terminated by CRLF.CRLF")
                    pos = len(data)
                    break
                ln = data[pos:j]
                pos = j + 2
                if ln == b".":
                    break
                if b"\r" in ln or b"\n" in ln:
                    errs.append("bare CR/LF inside POP3 line")
                if ln.startswith(b"."):
                    if not ln.startswith(b".."):
                        errs.append(f"line starting with single dot not stuffed: {ln[:40]!r}")
                    ln = ln[1:]
                lines.append(ln)
            payload = lines
        out.append((status, payload))
    if pos != len(data):
        errs.append(f"{len(data)-pos} unexpected trailing octets: {data[pos:pos+60]!r}")
    return out, errs
