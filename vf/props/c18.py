"""
C18 -- no access without the right password; brute-force throttling holds.

(a) Gate (engine E): every IMAP command (incl. UID forms) and every POP3 command, in each of
six pre-authentication states, through the real front-end (IMAPClient.start() /
POP3Client.start() -> *SubprocessInterface.message()).  Observation: was a user-process
connection requested, were bytes relayed to it, did the reply carry mailbox data.  LOGIN /
USER+PASS for every (account kind x password variant): success iff the account is usable and
the password is exactly the current one.
(b) Throttle (explicit-state search): breadth-first over timed attempt sequences; a transition
is a *real* LOGIN (or POP3 USER/PASS) of (user in {alice,bob,ghost}) x (address in {ip1,ip2}) x
(password good/bad) through the front-end, or a clock advance of 1/30/59/61 s.  States are
the implementation's two failure tables relative to now, de-duplicated.  Oracle: a reference
automaton driven by the same virtual timestamps (sets of possible states where an age is
exactly 60 s).
"""

from __future__ import annotations

import itertools
import os

from ..frontend import GOOD, FrontWorld, md5_hash
from ..runner import Failure, Result, pmap, seeded_order

PROP = "C18"

IMAP_CMDS = [
    "SELECT INBOX", "EXAMINE INBOX", "FETCH 1 BODY[]", "UID FETCH 1:* (FLAGS)", "STORE 1 +FLAGS (\\Deleted)", "UID STORE 1 FLAGS ()", "EXPUNGE",
    "UID EXPUNGE 1", "SEARCH ALL", "UID SEARCH ALL", "COPY 1 x", "UID COPY 1 x", "MOVE 1 x", "UID MOVE 1 x", "APPEND INBOX {3}\r\nabc", 'LIST "" "*"',
    'LSUB "" "*"', "STATUS INBOX (MESSAGES)", "CREATE x", "DELETE INBOX", "RENAME INBOX y", "SUBSCRIBE x", "UNSUBSCRIBE x", "CLOSE", "CHECK", "UNSELECT",
    "IDLE", "NOOP", "CAPABILITY", "NAMESPACE", "ID NIL", "AUTHENTICATE PLAIN", "UID", "LOGOUT",
]
POP3_CMDS = ["STAT", "LIST", "LIST 1", "RETR 1", "DELE 1", "NOOP", "RSET", "TOP 1 1", "UIDL", "CAPA", "QUIT", "PASS notthepassword", "USER alice"]
STATES = ["fresh", "failed-login", "throttled", "bad-line", "idle", "unusable-account"]
DATA_MARKERS = (b" EXISTS", b" FETCH ", b"* LIST", b"* LSUB", b"* STATUS", b"* SEARCH", b"RECENT", b"UIDVALIDITY")


def accounts():
    from ..frontend import md5_hash

    return {"alice": None, "bob": md5_hash("bobpw", "othersalt"), "carol": "!unusablehash", "dave": "", "erin": "notahash$x$y"}


def prelude(fw, s, state, pop3=False):
    if state == "failed-login":
        s.line(b"USER alice" if pop3 else b"p1 LOGIN alice wrong")
        if pop3:
            s.line(b"PASS wrong")
    elif state == "throttled":
        for i in range(6):
            t = fw.pop3_client(port=5200 + i) if pop3 else fw.imap_client(port=5200 + i)
            if pop3:
                t.line(b"USER alice")
                t.line(b"PASS nope")
            else:
                t.line(b"t LOGIN alice nope")
        if pop3:
            s.line(b"USER alice")
            s.line(b"PASS alicepw")
        else:
            s.line(b"p1 LOGIN alice alicepw")
    elif state == "bad-line":
        s.line(b")( garbage {" if not pop3 else b"BOGUS")
    elif state == "idle":
        if not pop3:
            s.line(b"p1 IDLE")
    elif state == "unusable-account":
        if pop3:
            s.line(b"USER carol")
            s.line(b"PASS carolpw")
        else:
            s.line(b"p1 LOGIN carol carolpw")


def work_gate(unit):
    fails, n = [], 0
    for proto, state, cmd in unit:
        fw = FrontWorld(accounts=accounts())
        try:
            pop3 = proto == "pop3"
            s = fw.pop3_client() if pop3 else fw.imap_client()
            prelude(fw, s, state, pop3)
            base_req = list(fw.connect_requests)
            if s.task.done():
                s = fw.pop3_client(port=5999) if pop3 else fw.imap_client(port=5999)
            out = s.line(cmd.encode("latin-1") if pop3 else b"g1 " + cmd.encode("latin-1"))
            n += 1
            det = {"proto": proto, "state": state, "cmd": cmd.split()[0] + (" " + cmd.split()[1] if cmd.startswith("UID ") and len(cmd.split()) > 1 else "")}
            rp = {"driver": "c18-gate", "proto": proto, "state": state, "cmd": cmd}
            if fw.connect_requests != base_req or base_req:
                fails.append(Failure(PROP, "C18.unauthenticated-connect", det, rp, [], fw.connect_requests))
            if s.relayed():
                fails.append(Failure(PROP, "C18.unauthenticated-relay", det, rp, b"", s.relayed()[:100].decode("latin-1")))
            if any(m in out for m in DATA_MARKERS) or (pop3 and out.startswith(b"+OK") and cmd.split()[0] in ("STAT", "LIST", "RETR", "TOP", "UIDL", "DELE")):
                fails.append(Failure(PROP, "C18.unauthenticated-data", det, rp, None, out[:200].decode("latin-1")))
        finally:
            fw.close()
    return fails, n


PW_VARIANTS = {"current": lambda p: p, "wrong": lambda p: "zzz" + p, "empty": lambda p: "", "prefix": lambda p: p[:-1], "space": lambda p: p + " ",
               "upper": lambda p: p.upper(), "hash": None}


def work_login(unit):
    fails, n = [], 0
    acc = accounts()
    for proto, user, var, enc in unit:
        fw = FrontWorld(accounts=acc)
        try:
            good = GOOD.get(user, "nopw")
            if var == "hash":
                pw = acc.get(user) or md5_hash(good)
            else:
                pw = PW_VARIANTS[var](good)
            usable = user in ("alice", "bob")
            should = usable and pw == good
            if proto == "imap":
                s = fw.imap_client()
                if enc == "literal":
                    line = b"l1 LOGIN {%d+}\r\n%s {%d+}\r\n%s" % (len(user), user.encode(), len(pw), pw.encode())
                elif enc == "quoted":
                    line = b'l1 LOGIN "%s" "%s"' % (user.encode(), pw.replace("\\", "\\\\").replace('"', '\\"').encode())
                else:
                    if pw == "" or " " in pw or "$" in pw and False:
                        continue
                    line = b"l1 LOGIN %s %s" % (user.encode(), pw.encode())
                out = s.line(line)
                ok = b"l1 OK" in out
            else:
                s = fw.pop3_client()
                s.line(b"USER " + user.encode())
                out = s.line(b"PASS " + pw.encode())
                ok = out.startswith(b"+OK")
            n += 1
            det = {"proto": proto, "account": user, "password": var}
            rp = {"driver": "c18-login", "proto": proto, "user": user, "var": var, "enc": enc}
            connected = [u for _, u in fw.connect_requests]
            if (ok or connected) and not should:
                fails.append(Failure(PROP, "C18.authenticated-without-password", det, rp, "refused", out[:120].decode("latin-1")))
            if should and (not ok or connected != [user]):
                fails.append(Failure(PROP, "C18.valid-login-refused", det, rp, "OK + connect", (out[:120].decode("latin-1"), connected)))
            if connected and connected != [user]:
                fails.append(Failure(PROP, "C18.connected-as-other-user", det, rp, [user], connected))
        finally:
            fw.close()
    return fails, n


# --------------------------------------------------------------------------------------------
# "the account's *current* password": the password file changes while the server runs
PW_REWRITES = {
    "changed": lambda old: md5_hash("new-" + old),  # new password = "new-" + old
    "disabled-XXX": lambda old: "XXX",
    "disabled-bang": lambda old: "!" + md5_hash(old),
    "removed": lambda old: None,
    "same": lambda old: md5_hash(old),  # rewritten with the same hash (mtime advances only)
}


def work_pwchange(unit):
    """(protocol, what happened before the rewrite, kind of rewrite): afterwards the old password must be refused
    (unless the hash is unchanged) and the new one accepted, each on a fresh connection."""
    import asimap.auth

    fails, n = [], 0
    for proto, before, kind, *rest in unit:
        stamp = rest[0] if rest else "later"
        fw = FrontWorld(accounts={"alice": None, "bob": None})
        try:
            old = GOOD["alice"]
            new = "new-" + old

            def attempt(pw):
                if proto == "imap":
                    s = fw.imap_client()
                    out = s.line(b'l1 LOGIN "alice" "%s"' % pw.encode())
                    return b"l1 OK" in out, out
                s = fw.pop3_client()
                s.line(b"USER alice")
                out = s.line(b"PASS " + pw.encode())
                return out.startswith(b"+OK"), out

            if before == "good-login":
                attempt(old)
            elif before == "bad-login":
                attempt("wrong-" + old)
            elif before == "bob-login":
                fw.imap_client().line(b'l0 LOGIN "bob" "%s"' % GOOD["bob"].encode())
            h = PW_REWRITES[kind](old)
            pwf = asimap.auth.PW_FILE_LOCATION
            with open(pwf, "w") as f:
                if h is not None:
                    f.write(f"alice:{h}:mail-alice\n")
                f.write(f"bob:{md5_hash(GOOD['bob'])}:mail-bob\n")
            st = os.stat(pwf)
            # the rewrite is later than the server's last look -- or the file was put back from a copy that kept its (earlier)
            # modification time: cp -p, rsync -t, a restore from backup
            dt = 5 if stamp == "later" else -3600
            os.utime(pwf, (st.st_atime + dt, st.st_mtime + dt))
            fw.connect_requests.clear()
            det = {"proto": proto, "before": before, "rewrite": kind}
            rp = {"driver": "c18-pwchange", "proto": proto, "before": before, "kind": kind, "stamp": stamp}
            if stamp != "later":
                det["stamp"] = stamp
            ok_old, out_old = attempt(old)
            n += 1
            if kind == "same":
                if not ok_old:
                    fails.append(Failure(PROP, "C18.valid-login-refused", det, rp, "OK", out_old[:100].decode("latin-1")))
            elif ok_old or fw.connect_requests:
                fails.append(Failure(PROP, "C18.old-password-still-authenticates", det, rp, "refused", out_old[:100].decode("latin-1")))
            if kind == "changed":
                fw.connect_requests.clear()
                ok_new, out_new = attempt(new)
                n += 1
                if not ok_new:
                    fails.append(Failure(PROP, "C18.current-password-refused", det, rp, "OK", out_new[:100].decode("latin-1")))
        finally:
            fw.close()
    return fails, n


# --------------------------------------------------------------------------------------------
# throttle: explicit-state search
USERS3 = ["alice", "bob", "ghost"]
ADDRS = ["10.1.1.1", "10.2.2.2"]
DELAYS = [1, 30, 59, 61]
MAXU, MAXA, PURGE = 4, 5, 60


def alphabet(tier):
    ev = []
    for u in USERS3:
        for a in ADDRS:
            ev.append(("imap", u, a, False))
            if u != "ghost":
                ev.append(("imap", u, a, True))
    # another spelling of an account's name (sent as a quoted string) is not that account: the right password does not open it,
    # and whatever the server does with the name it may not become a second, fresh allowance of guesses at bob's password
    ev.append(("imap", "bob ", ADDRS[0], True))
    ev.append(("imap", "bob ", ADDRS[1], False))
    ev.append(("pop3", "alice", ADDRS[0], False))
    ev.append(("pop3", "alice", ADDRS[1], True))
    ev.append(("pop3", "bob", ADDRS[0], False))
    for d in DELAYS:
        ev.append(("wait", d))
    return ev


def impl_state():
    import asimap.throttle as th

    return dict(th.BAD_USER_AUTHS), dict(th.BAD_IP_AUTHS)


def restore(fw, st):
    import asimap.throttle as th

    (ut, at), now = st
    fw.loop._vtime = now
    th.BAD_USER_AUTHS.clear()
    th.BAD_IP_AUTHS.clear()
    from ..seams import EPOCH

    for k, (c, age) in ut:
        th.BAD_USER_AUTHS[k] = (c, EPOCH + now - age)
    for k, (c, age) in at:
        th.BAD_IP_AUTHS[k] = (c, EPOCH + now - age)


def canon(fw):
    from ..seams import EPOCH

    now = fw.loop.time()
    ut, at = impl_state()

    def c(tbl):
        out = []
        for k, (cnt, last) in tbl.items():
            age = round(EPOCH + now - last, 6)
            if age > PURGE:
                continue
            out.append((k, (min(cnt, 8), age)))
        return tuple(sorted(out))

    return (c(ut), c(at))


def model_step(states, ev, t):
    """states: set of frozen model states ((user tbl),(addr tbl)) with absolute last-times.
    Returns {outcome: set(states')}"""
    out = {}
    kind = ev[0]
    if kind == "wait":
        return {"waited": set(states)}
    _, u, a, good = ev
    good = good and u in GOOD  # (the password is right only for the account it belongs to, spelled as in the password file)
    for (ut, at) in states:
        ud, ad = dict(ut), dict(at)
        variants = [(ud, ad)]
        for tbl_i, key in ((0, u), (1, a)):
            nv = []
            for v in variants:
                tbl = v[tbl_i]
                if key in tbl:
                    age = round(t - tbl[key][1], 6)
                    if age > PURGE:
                        t2 = dict(tbl)
                        del t2[key]
                        nv.append((t2, v[1]) if tbl_i == 0 else (v[0], t2))
                    elif age == PURGE:
                        t2 = dict(tbl)
                        del t2[key]
                        nv.append((t2, v[1]) if tbl_i == 0 else (v[0], t2))
                        nv.append(v)
                    else:
                        nv.append(v)
                else:
                    nv.append(v)
            variants = nv
        for (ud2, ad2) in variants:
            refused = (u in ud2 and ud2[u][0] > MAXU) or (a in ad2 and ad2[a][0] > MAXA)
            if refused:
                oc = "throttled"
            elif not good:
                oc = "denied"
                ud2 = dict(ud2)
                ad2 = dict(ad2)
                ud2[u] = (ud2.get(u, (0, 0))[0] + 1, t)
                ad2[a] = (ad2.get(a, (0, 0))[0] + 1, t)
            else:
                oc = "ok"
            out.setdefault(oc, set()).add((tuple(sorted(ud2.items())), tuple(sorted(ad2.items()))))
    return out


def do_event(fw, ev):
    """Run one real transition.  Returns (outcome, t_attempt)."""
    lp = fw.loop
    if ev[0] == "wait":
        lp.advance(float(ev[1]))
        return "waited", lp.time()
    proto, u, a, good = ev
    pw = GOOD.get(u.strip(), "ghostpw") if good else "wrong-password"
    t = lp.time()
    fw.port = getattr(fw, "port", 6000) + 1
    if proto == "imap":
        s = fw.imap_client(addr=a, port=fw.port)
        out = s.line(b"x LOGIN %s %s" % (b'"' + u.encode() + b'"' if u != u.strip() else u.encode(), pw.encode()), wait=15)
        if b"x OK" in out:
            oc = "ok"
        elif b"Too many" in out:
            oc = "throttled"
        elif b"x NO" in out:
            oc = "denied"
        else:
            oc = "other:" + out[:60].decode("latin-1")
    else:
        s = fw.pop3_client(addr=a, port=fw.port)
        s.line(b"USER " + u.encode())
        out = s.line(b"PASS " + pw.encode())
        if out.startswith(b"+OK"):
            oc = "ok"
        elif b"too many" in out:
            oc = "throttled"
        elif out.startswith(b"-ERR"):
            oc = "denied"
        else:
            oc = "other:" + out[:60].decode("latin-1")
    s.feed(b"")  # nothing more
    if not s.writer.closed:
        s.writer.close()
    lp.settle()
    return oc, t


def work_throttle(unit):
    """Expand a batch of (impl canonical state, now, model states, history) by every event."""
    from ..seams import EPOCH

    alphabet_, nodes = unit
    fw = FrontWorld()
    res = []
    try:
        for (cst, now, mstates, hist) in nodes:
            for ev in alphabet_:
                restore(fw, (cst, now))
                oc, t = do_event(fw, ev)
                ms = model_step(mstates, ev, EPOCH + t if ev[0] != "wait" else 0)
                fail = None
                if oc not in ms:
                    fail = {"event": list(ev), "observed": oc, "allowed": sorted(ms), "history": hist + [list(ev)]}
                    nms = set()
                else:
                    nms = ms[oc]
                res.append((hist + [list(ev)], canon(fw), fw.loop.time(), nms, fail, oc))
    finally:
        fw.close()
    return res


def throttle_bfs(tier, jobs, seed):
    depth = 6 if tier == "quick" else 8
    alpha = alphabet(tier)
    # start from the empty tables and from states at / just below the thresholds (ages 0 and 59 s)
    from ..seams import EPOCH

    frontier = []
    seen = set()
    for name, ut, at, now in [
        ("empty", {}, {}, 0.0),
        ("at-thresholds", {"alice": (MAXU, 0.0), "ghost": (MAXU + 1, 10.0)}, {ADDRS[0]: (MAXA, 0.0)}, 100.0),
        ("old-failures", {"alice": (MAXU + 1, 59.0), "bob": (MAXU, 30.0)}, {ADDRS[0]: (MAXA + 1, 59.0), ADDRS[1]: (MAXA, 1.0)}, 200.0),
    ]:
        cst = (tuple(sorted((k, (c, a)) for k, (c, a) in ut.items())), tuple(sorted((k, (c, a)) for k, (c, a) in at.items())))
        mst = (tuple(sorted((k, (c, EPOCH + now - a)) for k, (c, a) in ut.items())), tuple(sorted((k, (c, EPOCH + now - a)) for k, (c, a) in at.items())))
        frontier.append((cst, now, {mst}, [["start", name]]))
        seen.add((cst, frozenset({mst})))
    transitions = 0
    fails = []
    per = []
    outcomes = {}
    samples = []
    for level in range(1, depth + 1):
        units = [(alpha, frontier[i : i + 8]) for i in range(0, len(frontier), 8)]
        nxt = []
        for res in pmap(work_throttle, seeded_order(units, seed), jobs):
            for hist, cst, now, nms, fail, oc in res:
                transitions += 1
                outcomes[oc] = outcomes.get(oc, 0) + 1
                if fail:
                    fails.append(Failure(PROP, "C18.throttle-disagrees-with-reference",
                                         {"observed": fail["observed"], "allowed": "/".join(fail["allowed"]), "proto": fail["event"][0]},
                                         {"driver": "c18-throttle", "history": fail["history"]}, fail["allowed"], fail["observed"]))
                    continue
                key = (cst, frozenset(nms))
                if key not in seen:
                    seen.add(key)
                    nxt.append((cst, now, nms, hist))
                    if len(samples) < 3 and level >= 4:
                        samples.append(hist)
        per.append({"level": level, "frontier": len(frontier), "new_states": len(nxt)})
        frontier = nxt
        if not frontier:
            break
    return {"states": len(seen), "transitions": transitions, "levels": per, "fails": fails, "outcomes": outcomes, "samples": samples, "depth": depth}


def run(tier, seed, jobs) -> Result:
    res = Result(level="model_checking")
    gate = [("imap", st, c) for st in STATES for c in IMAP_CMDS] + [("pop3", st, c) for st in STATES if st != "idle" for c in POP3_CMDS]
    ng = 0
    for f, n in pmap(work_gate, [gate[i : i + 12] for i in range(0, len(gate), 12)], jobs):
        res.failures.extend(f)
        ng += n
    # (POP3 is line-oriented: white space at the end of the PASS line is not part of the password)
    logins = [(p, u, v, e) for p in ("imap", "pop3") for u in list(accounts()) + ["ghost"] for v in PW_VARIANTS
              for e in (("atom", "quoted", "literal") if p == "imap" else ("line",)) if not (p == "pop3" and v == "space")]
    nl = 0
    for f, n in pmap(work_login, [logins[i : i + 12] for i in range(0, len(logins), 12)], jobs):
        res.failures.extend(f)
        nl += n
    pwc = [(p, b, k, st_) for p in ("imap", "pop3") for b in ("none", "good-login", "bad-login", "bob-login") for k in PW_REWRITES for st_ in ("later", "earlier")
           if not (st_ == "earlier" and b == "none")]  # (before the server's first look there is nothing to be earlier than)
    npw = 0
    for f, n in pmap(work_pwchange, [pwc[i : i + 5] for i in range(0, len(pwc), 5)], jobs):
        res.failures.extend(f)
        npw += n
    th = throttle_bfs(tier, jobs, seed)
    res.failures.extend(th["fails"])
    res.coverage = {
        "states": th["states"], "transitions": th["transitions"], "traces_validated_against_impl": th["transitions"],
        "samples": th["samples"] or [[["imap", "alice", "10.1.1.1", False]]],
        "throttle_levels": th["levels"], "throttle_depth": th["depth"], "throttle_outcomes": th["outcomes"],
        "gate_cells": ng, "login_cells": nl, "password_change_cells": npw, "exhaustive": True,
        "explanation": "throttle: explicit-state BFS, every transition is a real LOGIN / USER+PASS through the front-end (or a clock advance); "
                       "states = the implementation's failure tables relative to now + the set of reference states still consistent; "
                       "gate/login matrices are exhaustive enumerations of their cells",
    }
    res.assumptions = ["'current password': the password file is rewritten (changed / disabled / account removed / same hash) after none, a good, a bad or "
                       "another user's login; the old password must then be refused and the new one accepted on fresh connections",
                       "no TLS, no real sockets, no real subprocess: requesting the user-process connection is the observation",
                       "accounts use the PBKDF2-SHA1 hasher with one iteration (real code path, cheap), an unusable '!' hash, an empty and a malformed hash",
                       "at exactly 60 s since the last failure either answer is accepted (the reference then follows the implementation's branch)",
                       "a throttled IMAP attempt takes 10 virtual seconds (the server's deliberate delay)"]
    return res


def replay(rec):
    rp = rec["replay"]
    if rp["driver"] == "c18-gate":
        return work_gate([(rp["proto"], rp["state"], rp["cmd"])])[0]
    if rp["driver"] == "c18-login":
        return work_login([(rp["proto"], rp["user"], rp["var"], rp["enc"])])[0]
    if rp["driver"] == "c18-pwchange":
        return work_pwchange([(rp["proto"], rp["before"], rp["kind"], rp.get("stamp", "later"))])[0]
    from ..seams import EPOCH

    fw = FrontWorld()
    out = []
    try:
        ms = {((), ())}
        for ev in rp["history"]:
            ev = tuple(ev)
            if ev[0] == "start":
                continue  # (replay of seeded start states is done through the BFS itself)
            oc, t = do_event(fw, ev)
            step = model_step(ms, ev, EPOCH + t if ev[0] != "wait" else 0)
            if oc not in step:
                out.append(Failure(PROP, "C18.throttle-disagrees-with-reference", {}, rp, sorted(step), oc))
                break
            ms = step[oc]
    finally:
        fw.close()
    return out
