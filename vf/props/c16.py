"""
C16 -- message data items are mutually consistent and faithful to what was stored.

Engine E: every message shape (vf.msggen: default message + <=2 (quick) / <=3 (thorough)
feature deviations out of 35: header encodings, address forms, missing fields, nested
multiparts, message/rfc822, parameter encodings, empty / LF / 8-bit / dotted / long bodies)
is stored by APPEND and dropped raw by the MH delivery agent, plus the repository's 27 fixture
messages; for each the equations of the property are evaluated on the real FETCH answers
(vf.props.msgcheck.check_message).
"""

from __future__ import annotations

from .. import msggen
from ..runner import Result, pmap, seeded_order
from . import msgcheck

PROP = "C16"
PREFIX = "C16."


def run(tier, seed, jobs, prefix=PREFIX, prop=PROP) -> Result:
    k = 2 if tier == "quick" else 3
    shapes = list(msggen.shapes(k))
    units = [shapes[i : i + 10] for i in range(0, len(shapes), 10)]
    res = Result(level="exploration")
    n = 0
    for f, nn in pmap(msgcheck.work_shapes, seeded_order(units, seed), jobs):
        res.failures.extend(x for x in f if x.rule.startswith(prefix))
        n += nn
    fx = msgcheck.fixtures()
    for f, nn in pmap(msgcheck.work_fixtures, [fx[i : i + 7] for i in range(0, len(fx), 7)], jobs):
        res.failures.extend(x for x in f if x.rule.startswith(prefix))
        n += nn
    nn_names = 0
    if prop == "C07":
        f, nn_names = msgcheck.work_names(None)
        res.failures.extend(x for x in f if x.rule.startswith(prefix))
    res.coverage = {
        "evaluations": n + nn_names,
        "distinct_nontrivial": len(shapes) * 2 + len(fx) + nn_names,
        "rule": "every combination of <=%d features out of %d (combinations touching the same field twice are skipped), each stored twice (APPEND, raw MH delivery), "
                "plus %d fixture messages; each is a distinct message; for C07 also %d mailbox names, %d keywords and 5 hostile error-text arguments"
                % (k, len(msggen.FEATURES), len(fx), len(msgcheck.NAMES), len(msgcheck.KEYWORDS)),
        "shapes": len(shapes), "fixtures": len(fx), "exhaustive": True,
        "samples": [list(shapes[1]), list(shapes[len(shapes) // 2]), list(shapes[-1])],
    }
    res.assumptions = ["messages come from a fixed feature menu (vf/msggen.py); not arbitrary byte strings",
                       "header text is compared after RFC 2047 decoding and whitespace folding; bodies modulo line-ending convention, a final newline and "
                       "MIME padding lines before a boundary",
                       "partials are probed at origins {0,1,len-1,len,len+1} with counts {1,2,len}"]
    return res


def replay(rec, prefix=PREFIX):
    rp = rec["replay"]
    if rp["driver"] == "msg":
        f, _ = msgcheck.work_shapes([tuple(rp["feats"])])
    elif rp["driver"] == "fixture":
        import os

        f, _ = msgcheck.work_fixtures([os.path.join(msgcheck.FIX, rp["fixture"])])
    else:
        f, _ = msgcheck.work_names(None)
    return [x for x in f if x.rule.startswith(prefix)]
