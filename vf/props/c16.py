"""
C16 -- message data items are mutually consistent and faithful to what was stored.

Engine E: every message shape (vf.msggen: default message + <=2 (quick) / <=3 (thorough)
feature deviations out of 35: header encodings, address forms, missing fields, nested
multiparts, message/rfc822, parameter encodings, empty / LF / 8-bit / dotted / long bodies)
is stored by APPEND and dropped raw by the MH delivery agent, plus the repository's 27 fixture
messages; for each the equations of the property are evaluated on the real FETCH answers
(vf.props.msgcheck.check_message).
"""

from __future__ import annotations

from .. import msggen
from ..runner import Result, pmap, seeded_order
from . import msgcheck

PROP = "C16"
PREFIX = "C16."


def hcfg():
    from .common import cfg_basic

    return cfg_basic("C16", 3, others=("other",), other_msgs=1, name="c16-h")


def halphabet(tier):
    """Histories after which the data items must still agree: sizes are asked for, messages go and come
    (MH hands a freed number to the next arrival), folders are packed."""
    A = "A"
    return [
        {"s": A, "op": "select", "m": "INBOX"},
        {"s": A, "op": "fetch", "set": "*", "items": "(RFC822.SIZE)"},
        {"s": A, "op": "fetch", "set": "1:*", "items": "(UID RFC822.SIZE)", "uid": True},
        {"s": A, "op": "search", "key": "ALL"},
        {"s": A, "op": "del", "set": "*"},
        {"s": A, "op": "del", "set": "1"},
        {"s": A, "op": "move", "set": "*", "dst": "other"},
        {"s": A, "op": "copy", "set": "1", "dst": "INBOX"},
        {"s": A, "op": "append", "m": "INBOX"},
        {"s": A, "op": "append", "m": "INBOX", "cid": "longcid0000000000000000000000000000000000000001"},
        {"s": "env", "op": "deliver", "m": "INBOX"},
        {"s": "env", "op": "poll", "dt": 21.0},
        # every message leaves at once without an EXPUNGE (the numbering starts again at 1), messages are parsed before they go
        {"s": A, "op": "rename", "m": "INBOX", "to": "old"},
        {"s": A, "op": "fetch", "set": "1:*", "items": "(BODY.PEEK[HEADER.FIELDS (SUBJECT)])"},
        # structural items are asked for (and may be remembered) before messages go and come
        {"s": A, "op": "fetch", "set": "*", "items": "(ENVELOPE BODYSTRUCTURE)"},
        {"s": A, "op": "fetch", "set": "1:*", "items": "(ENVELOPE BODY)", "uid": True},
    ]


def run(tier, seed, jobs, prefix=PREFIX, prop=PROP) -> Result:
    k = 2 if tier == "quick" else 3
    shapes = list(msggen.shapes(k))
    units = [shapes[i : i + 10] for i in range(0, len(shapes), 10)]
    res = Result(level="exploration")
    n = 0
    for f, nn in pmap(msgcheck.work_shapes, seeded_order(units, seed), jobs):
        res.failures.extend(x for x in f if x.rule.startswith(prefix))
        n += nn
    fx = msgcheck.fixtures()
    for f, nn in pmap(msgcheck.work_fixtures, [fx[i : i + 7] for i in range(0, len(fx), 7)], jobs):
        res.failures.extend(x for x in f if x.rule.startswith(prefix))
        n += nn
    nn_names = 0
    if prop == "C07":
        f, nn_names = msgcheck.work_names(None)
        res.failures.extend(x for x in f if x.rule.startswith(prefix))
    res.coverage = {
        "evaluations": n + nn_names,
        "distinct_nontrivial": len(shapes) * 2 + len(fx) + nn_names,
        "rule": "every combination of <=%d features out of %d (combinations touching the same field twice are skipped), each stored twice (APPEND, raw MH delivery), "
                "plus %d fixture messages; each is a distinct message; for C07 also %d mailbox names, %d keywords and 5 hostile error-text arguments"
                % (k, len(msggen.FEATURES), len(fx), len(msgcheck.NAMES), len(msgcheck.KEYWORDS)),
        "shapes": len(shapes), "fixtures": len(fx), "exhaustive": True,
        "samples": [list(shapes[1]), list(shapes[len(shapes) // 2]), list(shapes[-1])],
    }
    if prop in ("C16", "C07"):
        # H part: the equations on every state a short history reaches (start from non-initial states); for C07 the structural
        # items (ENVELOPE, BODYSTRUCTURE) must describe the message they are sent for
        from .hcommon import run_h

        hres = run_h(prop, (prefix,), [{"cfg_ref": ("vf.props.c16", "hcfg", []), "alphabet": halphabet(tier),
                                         "depth": 4 if tier == "quick" else 5, "label": "INBOX(3), sizes asked / messages come and go"}],
                     ("C16",), jobs, seed, [], time_budget=60 if tier == "quick" else 900)
        res.failures.extend(hres.failures)
        res.coverage["evaluations"] += hres.coverage["transitions"]
        res.coverage["distinct_nontrivial"] += hres.coverage["states"]
        res.coverage["exhaustive"] = res.coverage["exhaustive"] and hres.coverage["exhaustive"]
        res.coverage["h_part"] = {k: hres.coverage[k] for k in ("states", "transitions", "bound", "caps_hit", "other_rules_seen") if k in hres.coverage}
    res.assumptions = ["H part (C07: the decoded ENVELOPE subject / message-id and BODYSTRUCTURE's octet count are those of the message the reference model expects at that UID): single session, INBOX(3) with messages of different sizes, pack limit as configured by the template; "
                       "after every history of <=4 (thorough 5) events: RFC822.SIZE = |BODY[]| = |HEADER|+|TEXT|, BODY[] is the model's message, SEARCH LARGER agrees",
                       "messages come from a fixed feature menu (vf/msggen.py); not arbitrary byte strings",
                       "header text is compared after RFC 2047 decoding and whitespace folding; bodies modulo line-ending convention, a final newline and "
                       "MIME padding lines before a boundary",
                       "partials are probed at origins {0,1,len-1,len,len+1} with counts {1,2,len}"]
    return res


def replay(rec, prefix=PREFIX):
    rp = rec["replay"]
    if rp["driver"] == "h":
        from .hcommon import replay_h

        return replay_h(prefix, rec)
    if rp["driver"] == "msg":
        f, _ = msgcheck.work_shapes([tuple(rp["feats"])])
    elif rp["driver"] == "fixture":
        import os

        f, _ = msgcheck.work_fixtures([os.path.join(msgcheck.FIX, rp["fixture"])])
    else:
        f, _ = msgcheck.work_names(None)
    return [x for x in f if x.rule.startswith(prefix)]
