"""
C20 -- a POP3 session is a stable snapshot and deletes only on QUIT.

Engine H: a POP3 session through the real POP3ClientProxy (opened by the "POP3" first frame
on the real IMAPClientProxy.run()) interleaved with an IMAP session that appends, expunges
(first / last, then appends again: MH number reuse), moves and lets the folder be packed.
Message bodies contain lines starting with dots, a lone dot, no final newline, an empty body.
"""

from __future__ import annotations

PROP = "C20"
RULES = ("C20.", "C05.message-multiset", "C02.uid-assignment")

BODIES = {
    1: "plain cid=m1; line\r\n.leading dot\r\n..two dots\r\n.\r\nafter lone dot\r\n",
    2: "cid=m2; no final newline",
    3: "cid=m3;\r\n\r\n\r\n",  # ends in blank lines: they are octets of the message too
}


def cfg(n=3):
    from .. import msgs, templates

    def setup(w, s):
        templates.must_ok(s, "CREATE other")
        for i in range(1, n + 1):
            from ..sessions import imap_literal

            m = msgs.make(f"m{i}", body=BODIES.get(i))
            templates.must_ok(s, f"APPEND INBOX () {msgs.idate(i)} ".encode() + imap_literal(m))

    tmpl = templates.build(f"c20-{n}", setup)
    return {"prop": PROP, "name": f"c20-{n}", "template": tmpl, "mode": "new", "driver": "h", "loopopts": {},
            "init": {"INBOX": [(i, f"m{i}", set(), msgs.idate_epoch(i)) for i in range(1, n + 1)], "other": []},
            "state_class": "vf.pop3driver:PState", "pack_limit": 2, "pack_ratio": 0.8,
            "prelude": [{"s": "A", "op": "select", "m": "INBOX"}]}


def alphabet(tier):
    P, A = "P", "A"
    ev = [
        {"s": P, "op": "pop_open"},
        {"s": P, "op": "pop_stat"},
        {"s": P, "op": "pop_list"},
        {"s": P, "op": "pop_list", "n": 2},
        {"s": P, "op": "pop_list", "n": 9},
        {"s": P, "op": "pop_uidl"},
        {"s": P, "op": "pop_retr", "n": 1},
        {"s": P, "op": "pop_retr", "n": 2},
        {"s": P, "op": "pop_retr", "n": 3},
        {"s": P, "op": "pop_retr", "n": 0},
        {"s": P, "op": "pop_top", "n": 1, "k": 2},
        {"s": P, "op": "pop_dele", "n": 1},
        {"s": P, "op": "pop_dele", "n": 3},
        {"s": P, "op": "pop_dele", "n": 7},
        {"s": P, "op": "pop_rset"},
        {"s": P, "op": "pop_quit"},
        {"s": P, "op": "pop_drop"},
        {"s": P, "op": "pop_uidl1", "n": 2},
        {"s": P, "op": "pop_uidl1", "n": 9},
        {"s": P, "op": "pop_top", "n": 3, "k": 0},
        {"s": P, "op": "pop_noop"},
        {"s": P, "op": "pop_raw", "line": "TOP 1", "expect": "err"},
        {"s": P, "op": "pop_raw", "line": "TOP 1 -1", "expect": "err"},
        {"s": P, "op": "pop_raw", "line": "TOP x 1", "expect": "err"},
        {"s": P, "op": "pop_raw", "line": "DELE", "expect": "err"},
        {"s": P, "op": "pop_raw", "line": "RETR 1 2", "expect": "err"},
        {"s": P, "op": "pop_raw", "line": "BOGUS", "expect": "err"},
        {"s": P, "op": "pop_raw", "line": "CAPA", "multiline": True},
        {"s": A, "op": "append", "m": "INBOX"},
        {"s": A, "op": "del", "set": "1"},
        {"s": A, "op": "del", "set": "*"},
        {"s": A, "op": "move", "set": "2", "dst": "other"},
        {"s": "env", "op": "poll", "dt": 21.0},
    ]
    return ev


def s_scenarios():
    """QUIT (which expunges the marked messages outside the mailbox's command queue) racing IMAP commands."""
    pre = [{"s": "A", "op": "select", "m": "INBOX"}, {"s": "P", "op": "pop_open"}, {"s": "P", "op": "pop_dele", "n": 1}]
    out = []
    for name, acmds in [
        ("quit|expunge", [{"op": "store", "set": "3", "mode": "+", "flags": "\\Deleted"}, {"op": "expunge"}]),
        ("quit|fetch", [{"op": "fetch", "set": "1:*", "items": "(UID BODY.PEEK[HEADER.FIELDS (SUBJECT)])", "uid": True}]),
        ("quit|move", [{"op": "move", "set": "2", "dst": "other"}]),
        ("quit|append", [{"op": "append", "m": "INBOX", "cid": "qa1"}]),
        ("quit|fetchall slow reader", [{"op": "fetch", "set": "1:*", "items": "(UID BODY.PEEK[HEADER.FIELDS (SUBJECT)])"}]),
    ]:
        out.append({"name": name, "cfg_ref": ["vf.props.c20", "cfg", [3]], "prelude": pre, "loopopts": {"preempt_timers": False},
                    "concurrent": {"A": [dict(c, s="A") for c in acmds],
                                   "P": [{"s": "P", "op": "pop", "line": "QUIT", "marked_uids": [1]}]}})
        if "slow" in name:
            out[-1]["slow"] = ["A"]  # the IMAP peer reads slowly: its FETCH may park after any response
    # RETR/TOP while an IMAP session's EXPUNGE is removing an earlier message: the snapshot's message or -ERR
    pre2 = [{"s": "A", "op": "select", "m": "INBOX"}, {"s": "A", "op": "store", "set": "1", "mode": "+", "flags": "\\Deleted"},
            {"s": "P", "op": "pop_open"}]
    for name, lines in [("retr|expunge", [("RETR 2", "m2"), ("RETR 3", "m3")]), ("top|expunge", [("TOP 3 1", "m3"), ("TOP 2 0", "m2")])]:
        out.append({"name": name, "cfg_ref": ["vf.props.c20", "cfg", [3]], "prelude": pre2, "loopopts": {"preempt_timers": False},
                    "concurrent": {"A": [{"s": "A", "op": "expunge"}],
                                   "P": [{"s": "P", "op": "pop", "line": ln, "expect_cid": c} for ln, c in lines]}})
    return out


def cfg_open():
    """Start state: the POP3 session is already in TRANSACTION state (its snapshot taken)."""
    c = dict(cfg(3))
    c["name"] = "c20-3-open"
    c["prelude"] = list(c["prelude"]) + [{"s": "P", "op": "pop_open"}]
    return c


def alphabet_marks(tier):
    """Narrow and deep: the DELE / RSET / QUIT bookkeeping, with one IMAP removal in between."""
    P, A = "P", "A"
    return [
        {"s": P, "op": "pop_dele", "n": 1}, {"s": P, "op": "pop_dele", "n": 2}, {"s": P, "op": "pop_dele", "n": 3},
        {"s": P, "op": "pop_rset"}, {"s": P, "op": "pop_quit"}, {"s": P, "op": "pop_drop"}, {"s": P, "op": "pop_stat"},
        {"s": P, "op": "pop_list"}, {"s": P, "op": "pop_retr", "n": 2}, {"s": A, "op": "del", "set": "1"},
    ]


def cfg_second():
    """Start state: a first POP3 session has come (sizes computed) and gone; the next pop_open is a second session."""
    c = dict(cfg(3))
    c["name"] = "c20-3-second"
    c["prelude"] = list(c["prelude"]) + [{"s": "P", "op": "pop_open"}, {"s": "P", "op": "pop_list"}, {"s": "P", "op": "pop_drop"}]
    return c


def alphabet_second(tier):
    P, A = "P", "A"
    return [
        {"s": A, "op": "del", "set": "*"}, {"s": A, "op": "del", "set": "1"}, {"s": A, "op": "append", "m": "INBOX"},
        {"s": A, "op": "append", "m": "INBOX", "cid": "longcid0000000000000000000000000000000000000002"}, {"s": "env", "op": "poll", "dt": 21.0},
        {"s": P, "op": "pop_open"}, {"s": P, "op": "pop_stat"}, {"s": P, "op": "pop_check", "n": 3}, {"s": P, "op": "pop_check", "n": 1},
    ]


def run(tier, seed, jobs):
    from .hcommon import run_h

    res = run_h(PROP, RULES, [{"cfg_ref": ("vf.props.c20", "cfg", [3]), "alphabet": alphabet(tier), "depth": 4 if tier == "quick" else 6,
                                "label": "INBOX(3) dotted bodies"},
                               {"cfg_ref": ("vf.props.c20", "cfg_open", []), "alphabet": alphabet_marks(tier), "depth": 4 if tier == "quick" else 6,
                                "label": "POP3 session open; DELE/RSET/QUIT bookkeeping (narrow, deep)"},
                               {"cfg_ref": ("vf.props.c20", "cfg_second", []), "alphabet": alphabet_second(tier), "depth": 4 if tier == "quick" else 5,
                                "label": "after a first POP3 session: messages go and come, a second session compares LIST n with RETR n"}],
                 ("C20", "C05"), jobs, seed,
                 ["one POP3 session and one IMAP session on INBOX(3); bodies with dot lines, a lone dot, no final newline",
                  "'octets RETR delivers' = un-stuffed payload between the status line and the terminating '.CRLF' line",
                  "a RETR of a message an IMAP session has expunged meanwhile may answer -ERR but may never deliver another message",
                  "commands strictly sequential in the H part; the S part races QUIT (with one marked message) against EXPUNGE / UID FETCH / MOVE / APPEND "
                  "with <=2 (thorough 3) schedule deviations"],
                 time_budget=60 if tier == "quick" else 900)
    from ..explore import sched

    per = []
    for sc in s_scenarios():
        r = sched.explore(sc, 2 if tier == "quick" else 3, jobs, seed, max_exec=30000 if tier == "quick" else 80000)
        for f in r["failures"]:
            f.rule = f.rule.replace("C10.", "C20.")
        res.failures.extend(r["failures"])
        res.coverage["states"] += r["executions"]
        res.coverage["transitions"] += r["steps"]
        res.coverage["traces_validated_against_impl"] += r["executions"]
        per.append({"scenario": sc["name"], "executions": r["executions"], "bound": r["bound_completed"], "outcomes": r["distinct_outcomes"], "cap": r["cap"]})
    res.coverage["schedule_part"] = per
    return res


def replay(rec):
    rp = rec["replay"]
    if rp.get("driver") == "s":
        from ..explore import sched

        _p, _n, _sig, fails, _st = sched.run_one((rp["scenario"], rp["choices"]))
        for f in fails:
            f.rule = f.rule.replace("C10.", "C20.")
        return fails
    from .hcommon import replay_h

    return replay_h("C", rec)
