"""
C20 -- a POP3 session is a stable snapshot and deletes only on QUIT.

Engine H: a POP3 session through the real POP3ClientProxy (opened by the "POP3" first frame
on the real IMAPClientProxy.run()) interleaved with an IMAP session that appends, expunges
(first / last, then appends again: MH number reuse), moves and lets the folder be packed.
Message bodies contain lines starting with dots, a lone dot, no final newline, an empty body.
"""

from __future__ import annotations

PROP = "C20"
RULES = ("C20.", "C05.message-multiset", "C02.uid-assignment")

BODIES = {
    1: "plain cid=m1; line\r\n.leading dot\r\n..two dots\r\n.\r\nafter lone dot\r\n",
    2: "cid=m2; no final newline",
    3: "cid=m3;\r\n\r\n\r\n",  # ends in blank lines: they are octets of the message too
}


def cfg(n=3):
    from .. import msgs, templates

    def setup(w, s):
        templates.must_ok(s, "CREATE other")
        for i in range(1, n + 1):
            from ..sessions import imap_literal

            m = msgs.make(f"m{i}", body=BODIES.get(i))
            templates.must_ok(s, f"APPEND INBOX () {msgs.idate(i)} ".encode() + imap_literal(m))

    tmpl = templates.build(f"c20-{n}", setup)
    return {"prop": PROP, "name": f"c20-{n}", "template": tmpl, "mode": "new", "driver": "h", "loopopts": {},
            "init": {"INBOX": [(i, f"m{i}", set(), msgs.idate_epoch(i)) for i in range(1, n + 1)], "other": []},
            "state_class": "vf.pop3driver:PState", "pack_limit": 2, "pack_ratio": 0.8,
            "prelude": [{"s": "A", "op": "select", "m": "INBOX"}]}


def alphabet(tier):
    P, A = "P", "A"
    ev = [
        {"s": P, "op": "pop_open"},
        {"s": P, "op": "pop_stat"},
        {"s": P, "op": "pop_list"},
        {"s": P, "op": "pop_list", "n": 2},
        {"s": P, "op": "pop_list", "n": 9},
        {"s": P, "op": "pop_uidl"},
        {"s": P, "op": "pop_retr", "n": 1},
        {"s": P, "op": "pop_retr", "n": 2},
        {"s": P, "op": "pop_retr", "n": 3},
        {"s": P, "op": "pop_retr", "n": 0},
        {"s": P, "op": "pop_top", "n": 1, "k": 2},
        {"s": P, "op": "pop_dele", "n": 1},
        {"s": P, "op": "pop_dele", "n": 3},
        {"s": P, "op": "pop_dele", "n": 7},
        {"s": P, "op": "pop_rset"},
        {"s": P, "op": "pop_quit"},
        {"s": P, "op": "pop_drop"},
        {"s": P, "op": "pop_uidl1", "n": 2},
        {"s": P, "op": "pop_uidl1", "n": 9},
        {"s": P, "op": "pop_top", "n": 3, "k": 0},
        {"s": P, "op": "pop_noop"},
        {"s": P, "op": "pop_raw", "line": "TOP 1", "expect": "err"},
        {"s": P, "op": "pop_raw", "line": "TOP 1 -1", "expect": "err"},
        {"s": P, "op": "pop_raw", "line": "TOP x 1", "expect": "err"},
        {"s": P, "op": "pop_raw", "line": "DELE", "expect": "err"},
        {"s": P, "op": "pop_raw", "line": "RETR 1 2", "expect": "err"},
        {"s": P, "op": "pop_raw", "line": "BOGUS", "expect": "err"},
        {"s": P, "op": "pop_raw", "line": "CAPA", "multiline": True},
        {"s": A, "op": "append", "m": "INBOX"},
        {"s": A, "op": "del", "set": "1"},
        {"s": A, "op": "del", "set": "*"},
        {"s": A, "op": "move", "set": "2", "dst": "other"},
        {"s": "env", "op": "poll", "dt": 21.0},
    ]
    return ev


def s_scenarios():
    """QUIT (which expunges the marked messages outside the mailbox's command queue) racing IMAP commands."""
    pre = [{"s": "A", "op": "select", "m": "INBOX"}, {"s": "P", "op": "pop_open"}, {"s": "P", "op": "pop_dele", "n": 1}]
    out = []
    for name, acmds in [
        ("quit|expunge", [{"op": "store", "set": "3", "mode": "+", "flags": "\\Deleted"}, {"op": "expunge"}]),
        ("quit|fetch", [{"op": "fetch", "set": "1:*", "items": "(UID BODY.PEEK[HEADER.FIELDS (SUBJECT)])", "uid": True}]),
        ("quit|move", [{"op": "move", "set": "2", "dst": "other"}]),
        ("quit|append", [{"op": "append", "m": "INBOX", "cid": "qa1"}]),
        ("quit|fetchall slow reader", [{"op": "fetch", "set": "1:*", "items": "(UID BODY.PEEK[HEADER.FIELDS (SUBJECT)])"}]),
    ]:
        out.append({"name": name, "cfg_ref": ["vf.props.c20", "cfg", [3]], "prelude": pre, "loopopts": {"preempt_timers": False},
                    "concurrent": {"A": [dict(c, s="A") for c in acmds],
                                   "P": [{"s": "P", "op": "pop", "line": "QUIT", "marked_uids": [1]}]}})
        if "slow" in name:
            out[-1]["slow"] = ["A"]  # the IMAP peer reads slowly: its FETCH may park after any response
    # RETR/TOP while an IMAP session's EXPUNGE is removing an earlier message: the snapshot's message or -ERR
    pre2 = [{"s": "A", "op": "select", "m": "INBOX"}, {"s": "A", "op": "store", "set": "1", "mode": "+", "flags": "\\Deleted"},
            {"s": "P", "op": "pop_open"}]
    for name, lines in [("retr|expunge", [("RETR 2", "m2"), ("RETR 3", "m3")]), ("top|expunge", [("TOP 3 1", "m3"), ("TOP 2 0", "m2")])]:
        out.append({"name": name, "cfg_ref": ["vf.props.c20", "cfg", [3]], "prelude": pre2, "loopopts": {"preempt_timers": False},
                    "concurrent": {"A": [{"s": "A", "op": "expunge"}],
                                   "P": [{"s": "P", "op": "pop", "line": ln, "expect_cid": c} for ln, c in lines]}})
    return out


# ------------------------------------------------------------------------------------------
# every body of a bounded line grammar over POP3
LINE_TOKENS = ["", ".", "..", ".a", "a", "...b "]


def body_cases(tier):
    """Every sequence of <= K lines over LINE_TOKENS, with and without the final line terminator."""
    import itertools

    K = 3 if tier == "quick" else 4
    toks = LINE_TOKENS[:5] if tier == "quick" else LINE_TOKENS
    out = [("", True)]
    for k in range(1, K + 1):
        for seq in itertools.product(toks, repeat=k):
            out.append(("\r\n".join(seq) + "\r\n", True))
            if seq[-1] != "":
                out.append(("\r\n".join(seq), False))
    return out


def work_bodies(unit):
    """unit: list of (how, [bodies]) -- `how` is append (CRLF literal through IMAP) or deliver (LF file written by an MH tool).
    Oracle, per message: RETR's un-stuffed payload is the message (CRLF line ends; one CRLF added only if it lacks a final one),
    its octet count is what STAT / LIST / RETR announce; TOP n k un-stuffs to the header lines followed by a prefix of the body's lines
    (blank lines not compared: which lines TOP selects is outside C20)."""
    from .. import msgs, templates
    from ..respparse import pop3_split
    from ..runner import Failure
    from ..sessions import imap_literal
    from ..world import World

    fails, n_eval = [], 0
    tmpl = templates.simple_inbox("c20-empty", 0, others=())
    for how, bodies in unit:
        w = World(tmpl)
        tr = []
        rp = {"driver": "c20-bodies", "how": how, "bodies": bodies}

        def fail(rule, det, exp=None, obs=None):
            fails.append(Failure(PROP, rule, det, rp, exp, obs, list(tr[-10:])))

        try:
            w.start()
            a = w.connect("A")
            want = []
            for i, body in enumerate(bodies, 1):
                m = msgs.make(f"b{i}", body=body)
                if how == "append":
                    r, _ = a.do(f"APPEND INBOX () {msgs.idate(i)} ".encode() + imap_literal(m))
                    if r is None or r.typ != "OK":
                        raise RuntimeError(f"APPEND refused: {r}")
                else:
                    w.deliver("inbox", m.replace(b"\r\n", b"\n"))
                want.append(m)
            p = w.connect("P", pop3=True)
            w.loop.settle()

            def pop(line, ml):
                out = p.pop3_do(line)
                tr.append(f"C[P]: {line} -> {out[:120]!r}")
                rep, errs = pop3_split(out, [ml])
                for e in errs:
                    fail("C20.malformed-reply", {"cmd": line.split()[0], "error": e.split(":")[0][:50]}, None, out[:200].decode("latin-1"))
                return rep[0] if rep else (None, None)

            st, payload = pop("LIST", True)
            listed = {int(x.split()[0]): int(x.split()[1]) for x in (payload or [])}
            if sorted(listed) != list(range(1, len(bodies) + 1)):
                fail("C20.list-numbers", {"how": how}, list(range(1, len(bodies) + 1)), sorted(listed))
            total = 0
            for i, m in enumerate(want, 1):
                n_eval += 1
                shape = {"how": how, "final_newline": m.endswith(b"\r\n"), "body": bodies[i - 1][:40]}
                st, payload = pop(f"RETR {i}", True)
                if st is None or not st.startswith(b"+OK") or payload is None:
                    fail("C20.retr-refused", shape, "+OK", st)
                    continue
                got = b"\r\n".join(payload) + (b"\r\n" if payload else b"")
                exp = m if m.endswith(b"\r\n") else m + b"\r\n"
                if got != exp:
                    fail("C20.retr-content", shape, exp[-60:].decode("latin-1"), got[-60:].decode("latin-1"))
                try:
                    announced = int(st.split()[1])
                except (IndexError, ValueError):
                    fail("C20.retr-no-size", shape, None, st.decode("latin-1"))
                    continue
                # (a message without a final line terminator is stored / served with one: the octets delivered are then len(m) + 2,
                # and the announcement may count them or not -- the H part's rule)
                padded = len(got) == announced + 2 and not got[:announced].endswith(b"\r\n")
                if announced != len(got) and not padded:
                    fail("C20.retr-size-vs-octets", dict(shape, diff=len(got) - announced), len(got), announced)
                if listed.get(i) != announced:
                    fail("C20.size-changed", dict(shape, where="LIST vs RETR"), listed.get(i), announced)
                total += announced
                hdr, _, btxt = m.partition(b"\r\n\r\n")
                blines = btxt.split(b"\r\n")
                if blines and blines[-1] == b"":
                    blines.pop()
                for k in (0, 1, 2, 5):
                    st, payload = pop(f"TOP {i} {k}", True)
                    if st is None or not st.startswith(b"+OK") or payload is None:
                        fail("C20.retr-refused", dict(shape, top=k), "+OK", st)
                        continue
                    # Which lines TOP selects is not part of C20 (as built it sends a second blank line after the header and skips a
                    # leading blank body line); what is: the reply is framed and stuffed so that un-stuffing gives back message lines.
                    got_l = [x for x in payload if x != b""]
                    hl = hdr.split(b"\r\n")
                    bl = [x for x in blines if x != b""]
                    ok = got_l[: len(hl)] == hl and got_l[len(hl) :] == bl[: len(got_l) - len(hl)] and (k < len(blines) or len(got_l) == len(hl) + len(bl))
                    if not ok:
                        fail("C20.top-stuffing", dict(shape, top=k), [x.decode("latin-1") for x in (hl + bl)[-4:]], [x.decode("latin-1") for x in payload[-4:]])
            st, _ = pop("STAT", False)
            if st is None or st.split()[1:3] != [str(len(want)).encode(), str(total).encode()]:
                fail("C20.stat-total", {"how": how}, f"+OK {len(want)} {total}", st)
        finally:
            w.close()
    return fails, n_eval


def cfg_open():
    """Start state: the POP3 session is already in TRANSACTION state (its snapshot taken)."""
    c = dict(cfg(3))
    c["name"] = "c20-3-open"
    c["prelude"] = list(c["prelude"]) + [{"s": "P", "op": "pop_open"}]
    return c


def alphabet_marks(tier):
    """Narrow and deep: the DELE / RSET / QUIT bookkeeping, with one IMAP removal in between."""
    P, A = "P", "A"
    return [
        {"s": P, "op": "pop_dele", "n": 1}, {"s": P, "op": "pop_dele", "n": 2}, {"s": P, "op": "pop_dele", "n": 3},
        {"s": P, "op": "pop_rset"}, {"s": P, "op": "pop_quit"}, {"s": P, "op": "pop_drop"}, {"s": P, "op": "pop_stat"},
        {"s": P, "op": "pop_list"}, {"s": P, "op": "pop_retr", "n": 2}, {"s": A, "op": "del", "set": "1"},
    ]


def cfg_second():
    """Start state: a first POP3 session has come (sizes computed) and gone; the next pop_open is a second session."""
    c = dict(cfg(3))
    c["name"] = "c20-3-second"
    c["prelude"] = list(c["prelude"]) + [{"s": "P", "op": "pop_open"}, {"s": "P", "op": "pop_list"}, {"s": "P", "op": "pop_drop"}]
    return c


def alphabet_second(tier):
    P, A = "P", "A"
    return [
        {"s": A, "op": "del", "set": "*"}, {"s": A, "op": "del", "set": "1"}, {"s": A, "op": "append", "m": "INBOX"},
        {"s": A, "op": "append", "m": "INBOX", "cid": "longcid0000000000000000000000000000000000000002"}, {"s": "env", "op": "poll", "dt": 21.0},
        {"s": P, "op": "pop_open"}, {"s": P, "op": "pop_stat"}, {"s": P, "op": "pop_check", "n": 3}, {"s": P, "op": "pop_check", "n": 1},
    ]


def run(tier, seed, jobs):
    from .hcommon import run_h

    res = run_h(PROP, RULES, [{"cfg_ref": ("vf.props.c20", "cfg", [3]), "alphabet": alphabet(tier), "depth": 4 if tier == "quick" else 6,
                                "label": "INBOX(3) dotted bodies"},
                               {"cfg_ref": ("vf.props.c20", "cfg_open", []), "alphabet": alphabet_marks(tier), "depth": 4 if tier == "quick" else 6,
                                "label": "POP3 session open; DELE/RSET/QUIT bookkeeping (narrow, deep)"},
                               {"cfg_ref": ("vf.props.c20", "cfg_second", []), "alphabet": alphabet_second(tier), "depth": 4 if tier == "quick" else 5,
                                "label": "after a first POP3 session: messages go and come, a second session compares LIST n with RETR n"}],
                 ("C20", "C05"), jobs, seed,
                 ["one POP3 session and one IMAP session on INBOX(3); bodies with dot lines, a lone dot, no final newline",
                  "'octets RETR delivers' = un-stuffed payload between the status line and the terminating '.CRLF' line",
                  "a RETR of a message an IMAP session has expunged meanwhile may answer -ERR but may never deliver another message",
                  "commands strictly sequential in the H part; the S part races QUIT (with one marked message) against EXPUNGE / UID FETCH / MOVE / APPEND "
                  "with <=2 (thorough 3) schedule deviations"],
                 time_budget=60 if tier == "quick" else 900)
    from ..explore import sched

    per = []
    for sc in s_scenarios():
        r = sched.explore(sc, 2 if tier == "quick" else 3, jobs, seed, max_exec=30000 if tier == "quick" else 80000)
        for f in r["failures"]:
            f.rule = f.rule.replace("C10.", "C20.")
        res.failures.extend(r["failures"])
        res.coverage["states"] += r["executions"]
        res.coverage["transitions"] += r["steps"]
        res.coverage["traces_validated_against_impl"] += r["executions"]
        per.append({"scenario": sc["name"], "executions": r["executions"], "bound": r["bound_completed"], "outcomes": r["distinct_outcomes"], "cap": r["cap"]})
    res.coverage["schedule_part"] = per
    from ..runner import pmap, seeded_order

    bodies = body_cases(tier)
    units = []
    for how in ("append", "deliver"):
        for i in range(0, len(bodies), 8):
            units.append([(how, [b for b, _nl in bodies[i : i + 8]])])
    nb = 0
    for f, k in pmap(work_bodies, seeded_order(units, seed), jobs):
        res.failures.extend(f)
        nb += k
    res.coverage["body_grammar_messages"] = nb
    res.coverage["states"] += nb
    res.coverage["transitions"] += nb * 6
    res.coverage["traces_validated_against_impl"] += nb
    res.assumptions.append(f"body part: every body of <= {3 if tier == 'quick' else 4} lines over the line alphabet {LINE_TOKENS[:5] if tier == 'quick' else LINE_TOKENS}, with and "
                           "without a final line terminator, stored through IMAP APPEND (CRLF) and by an MH tool (LF file); RETR / LIST / STAT / TOP n k for k in 0,1,2,5 "
                           "compared with the message itself (for TOP: non-blank lines only)")
    # the front-end's relay of multi-line replies (root server -> client): RETR replies with short, long and over-long lines reach
    # the client octet for octet, however the user process's output is segmented
    f, k = work_relay(None)
    res.failures.extend(f)
    res.coverage["relay_streams"] = k
    res.coverage["states"] += k
    res.coverage["transitions"] += k
    res.coverage["traces_validated_against_impl"] += k
    res.assumptions.append("relay part: RETR replies whose longest line is 1, 100, 131071, 131072, 131073 or 300000 octets through the real POP3 front-end relay, "
                           "fed whole, in 1000-octet and in 7-octet segments: delivered unmodified and terminated")
    return res


def work_relay(_unit):
    from ..runner import Failure

    from ..frontend import FrontWorld

    fails, n = [], 0
    LIM = 131_072
    for run in (1, 100, LIM - 1, LIM, LIM + 1, 300000):
        body = b"Subject: x\r\n\r\n" + b"A" * run + b"\r\n.. dotted\r\nlast\r\n"
        data = b"+OK %d octets\r\n" % len(body) + body + b".\r\n"
        for chunk in (len(data), 1000, 7):
            fw = FrontWorld()
            try:
                s = fw.pop3_client()
                s.line(b"USER alice")
                out = s.line(b"PASS alicepw")
                if b"+OK" not in out:
                    raise AssertionError(f"POP3 login refused in the relay part: {out!r}")
                base = len(s.out())
                for i in range(0, len(data), chunk):
                    if getattr(s.intf.reader, "_eof", False) or s.writer.closed:
                        break  # the relay gave up
                    s.intf.reader.feed_data(data[i : i + chunk])
                    if chunk != 7 or i % 700 == 0:
                        fw.loop.settle()
                fw.loop.settle()
                got = s.out()[base:]
                n += 1
                if got != data:
                    fails.append(Failure(PROP, "C20.relay-modified", {"over_limit": run >= LIM, "closed": s.writer.closed},
                                         {"driver": "c20-relay", "run": run, "chunk": chunk}, len(data), len(got)))
            finally:
                fw.close()
    return fails, n


def replay(rec):
    rp = rec["replay"]
    if rp.get("driver") == "c20-relay":
        return [f for f in work_relay(None)[0] if f.replay["run"] == rp["run"] and f.replay["chunk"] == rp["chunk"]]
    if rp.get("driver") == "c20-bodies":
        return work_bodies([(rp["how"], rp["bodies"])])[0]
    if rp.get("driver") == "s":
        from ..explore import sched

        _p, _n, _sig, fails, _st = sched.run_one((rp["scenario"], rp["choices"]))
        for f in fails:
            f.rule = f.rule.replace("C10.", "C20.")
        return fails
    from .hcommon import replay_h

    return replay_h("C", rec)
