"""
C08 -- command parsing is total and means what RFC 3501 says.

Engine E, pure (no server needed for most of it):
 (1) grammar-directed: every sentence of a bounded command grammar (all commands and UID
     forms; astrings as atom / quoted-with-escapes / literal / literal+; sequence sets;
     flag lists; every fetch item, section and partial; search keys nested to depth 2 (quick)
     / 3 (thorough); STATUS items; LIST-EXTENDED options; APPEND with flags/date/literal) is
     generated together with its expected meaning; the real IMAPClientCommand.parse() must
     accept it, consume the whole input and produce that meaning.
 (2) totality: for every core sentence all truncations and all single-point edits
     (delete / insert / replace with each of 14 interesting octets; thorough: all double
     edits of sentences <= 24 octets) must either parse with nothing left over or raise a
     BadCommand -- never any other exception.
 (3) a rejected command, sent through the real IMAPClientProxy.run(), yields a BAD and the
     connection stays usable.
"""

from __future__ import annotations

import datetime
import itertools
import sys

from ..runner import Failure, Result, pmap, seeded_order

PROP = "C08"
EDIT_CHARS = [" ", "(", ")", "{", "}", '"', "\\", "*", "%", "\r", "\n", "0", "a", "\x80", "[", "]"]


# ------------------------------------------------------------------------------------------
# astring forms
def forms(value: str, which=("atom", "quoted", "literal", "literal+")):
    out = []
    atom_ok = value != "" and all(c not in '(){ %*"\\]' and 32 < ord(c) < 127 for c in value)
    if "atom" in which and atom_ok:
        out.append(value)
    if "quoted" in which and "\r" not in value and "\n" not in value:
        out.append('"' + value.replace("\\", "\\\\").replace('"', '\\"') + '"')
    if "literal" in which:
        out.append("{%d}\r\n%s" % (len(value.encode("latin-1")), value))
    if "literal+" in which:
        out.append("{%d+}\r\n%s" % (len(value.encode("latin-1")), value))
    return out


MAILBOXES = ["INBOX", "inbox", "InBoX", "inboxes", "Inbox2", "a/b", "with space", 'q"uote', "back\\slash", "x+y", "lit\r\neral", "\xe9t\xe9", "inbox/sub",
             'e\\"q', "b\\\\s"]  # octets that look like quoted-string escapes: a literal must keep them as they are
SETS = [("1", [1]), ("*", ["*"]), ("2:4", [(2, 4)]), ("4:2", [(4, 2)]), ("1,3:5,*", [1, (3, 5), "*"]), ("*:1", [("*", 1)]), ("7,7", [7, 7]),
        ("10:*", [(10, "*")])]
FLAGLISTS = [("()", []), ("(\\Seen)", ["\\Seen"]), ("(\\Answered \\Flagged $Forwarded kw-1)", ["\\Answered", "\\Flagged", "$Forwarded", "kw-1"]),
             ("(\\Deleted \\Draft)", ["\\Deleted", "\\Draft"])]


def norm_mbox(x):
    if x is None:
        return None
    import os

    x = os.path.normpath(x) if x else x
    return "inbox" if x.lower() == "inbox" else x


def gen_sentences(tier):
    """Yield (sentence, expected dict)."""
    t = "a1"
    for c in ("CAPABILITY", "NOOP", "LOGOUT", "CHECK", "CLOSE", "EXPUNGE", "IDLE", "NAMESPACE", "UNSELECT", "noop", "Capability"):
        yield f"{t} {c}", {"command": c.lower()}
    for mb in MAILBOXES:
        for f in forms(mb):
            for c in ("SELECT", "EXAMINE", "CREATE", "DELETE", "SUBSCRIBE", "UNSUBSCRIBE"):
                yield f"{t} {c} {f}", {"command": c.lower(), "mailbox_name": mb}
            yield f"{t} STATUS {f} (MESSAGES UIDNEXT)", {"command": "status", "mailbox_name": mb, "status": ["messages", "uidnext"]}
    for a, b in [("a", "b"), ("INBOX", "old box"), ('x"y', "inbox"), ("lit\r\n1", "lit\r\n2")]:
        for fa in forms(a):
            for fb in forms(b):
                yield f"{t} RENAME {fa} {fb}", {"command": "rename", "src": a, "dst": b}
    for atts, exp in [("(MESSAGES)", ["messages"]), ("(MESSAGES RECENT UIDNEXT UIDVALIDITY UNSEEN)", ["messages", "recent", "uidnext", "uidvalidity", "unseen"]),
                      ("(unseen)", ["unseen"])]:
        yield f"{t} STATUS foo {atts}", {"command": "status", "mailbox_name": "foo", "status": exp}
    for u, p in [("fred", "secret"), ("fred@example.com", "p w"), ('us"er', "pa\\ss"), ("u", "")]:
        for fu in forms(u):
            for fp in forms(p):
                yield f"{t} LOGIN {fu} {fp}", {"command": "login", "user": u, "password": p}
    # sets x commands
    for ss, se in SETS:
        for uid in (False, True):
            U = "UID " if uid else ""
            yield f"{t} {U}COPY {ss} dest", {"command": "copy", "uid": uid, "msg_set": se, "mailbox_name": "dest"}
            yield f"{t} {U}MOVE {ss} \"de st\"", {"command": "move", "uid": uid, "msg_set": se, "mailbox_name": "de st"}
            yield f"{t} {U}FETCH {ss} FLAGS", {"command": "fetch", "uid": uid, "msg_set": se, "fetch": [("flags", None, None, False)]}
            for fl, fe in FLAGLISTS:
                for act, ae in (("FLAGS", "replace"), ("+FLAGS", "add"), ("-FLAGS", "remove"), ("+FLAGS.SILENT", "add"), ("flags.silent", "replace")):
                    yield f"{t} {U}STORE {ss} {act} {fl}", {"command": "store", "uid": uid, "msg_set": se, "store_action": ae,
                                                            "silent": "silent" in act.lower(), "flags": fe}
        yield f"{t} UID EXPUNGE {ss}", {"command": "expunge", "uid": True, "msg_set": se}
    yield f"{t} STORE 1 +FLAGS \\Seen", {"command": "store", "uid": False, "msg_set": [1], "store_action": "add", "silent": False, "flags": ["\\Seen"]}
    for U in ("", "UID "):  # store-att-flags = ... SP (flag-list / (flag *(SP flag)))
        yield f"{t} {U}STORE 2 -FLAGS \\Seen \\Deleted", {"command": "store", "uid": bool(U), "msg_set": [2], "store_action": "remove", "silent": False, "flags": ["\\Seen", "\\Deleted"]}
        yield f"{t} {U}STORE 1:2 FLAGS.SILENT kw $Fwd \\Draft", {"command": "store", "uid": bool(U), "msg_set": [(1, 2)], "store_action": "replace", "silent": True,
                                                                "flags": ["kw", "$Fwd", "\\Draft"]}
    # system flag names are case-insensitive
    yield f"{t} STORE 1 +FLAGS (\\seen \\DELETED \\answered kW)", {"command": "store", "uid": False, "msg_set": [1], "store_action": "add", "silent": False,
                                                              "flags": ["\\Seen", "\\Deleted", "\\Answered", "kW"]}
    # "}" is not an atom-special
    for c in ("SELECT", "CREATE", "DELETE"):
        yield f"{t} {c} a}}b", {"command": c.lower(), "mailbox_name": "a}b"}
    yield f"t}}1 NOOP", {"command": "noop"}
    yield f"{t} LIST x}} y}}%", {"command": "list", "ref": "x}", "list_mailbox": "y}%"}
    yield f"{t} STORE 1 +FLAGS (k}}w)", {"command": "store", "uid": False, "msg_set": [1], "store_action": "add", "silent": False, "flags": ["k}w"]}
    # fetch atts
    FA = [
        ("ENVELOPE", ("envelope", None, None, False)), ("FLAGS", ("flags", None, None, False)), ("INTERNALDATE", ("internaldate", None, None, False)),
        ("RFC822", ("body", [], None, False)), ("RFC822.HEADER", ("body", ["header"], None, True)), ("RFC822.SIZE", ("rfc822.size", None, None, False)),
        ("RFC822.TEXT", ("body", ["text"], None, False)), ("BODY", ("bodystructure", None, None, False)), ("BODYSTRUCTURE", ("bodystructure", None, None, False)),
        ("UID", ("uid", None, None, False)),
        ("BODY[]", ("body", [], None, False)), ("BODY.PEEK[]", ("body", [], None, True)), ("BODY[HEADER]", ("body", ["header"], None, False)),
        ("BODY[TEXT]", ("body", ["text"], None, False)), ("BODY[1]", ("body", [1], None, False)), ("BODY[1.2.3]", ("body", [1, 2, 3], None, False)),
        ("BODY[2.MIME]", ("body", [2, "mime"], None, False)), ("BODY[1.HEADER]", ("body", [1, "header"], None, False)),
        ("BODY[4.2.TEXT]", ("body", [4, 2, "text"], None, False)),
        ("BODY[HEADER.FIELDS (DATE FROM)]", ("body", [("header.fields", ["DATE", "FROM"])], None, False)),
        ("BODY.PEEK[HEADER.FIELDS.NOT (\"X-Y\" subject)]", ("body", [("header.fields.not", ["X-Y", "subject"])], None, True)),
        ("BODY[3.HEADER.FIELDS (To)]", ("body", [3, ("header.fields", ["To"])], None, False)),
        ("BODY[]<0.10>", ("body", [], (0, 10), False)), ("BODY.PEEK[TEXT]<5.1>", ("body", ["text"], (5, 1), True)),
        ("body[header]", ("body", ["header"], None, False)),
    ]
    for s, e in FA:
        yield f"{t} FETCH 1:* {s}", {"command": "fetch", "uid": False, "msg_set": [(1, "*")], "fetch": [e]}
        yield f"{t} UID FETCH 5 ({s})", {"command": "fetch", "uid": True, "msg_set": [5], "fetch": [e]}
    for (s1, e1), (s2, e2) in itertools.combinations(FA[::3], 2):
        yield f"{t} FETCH 2 ({s1} {s2})", {"command": "fetch", "uid": False, "msg_set": [2], "fetch": [e1, e2]}
    yield f"{t} FETCH 1 ALL", {"command": "fetch", "uid": False, "msg_set": [1], "fetch": [("flags", None, None, False), ("internaldate", None, None, False),
                                                                                        ("rfc822.size", None, None, False), ("envelope", None, None, False)]}
    yield f"{t} FETCH 1 FAST", {"command": "fetch", "uid": False, "msg_set": [1], "fetch": [("flags", None, None, False), ("internaldate", None, None, False),
                                                                                         ("rfc822.size", None, None, False)]}
    yield f"{t} FETCH 1 FULL", {"command": "fetch", "uid": False, "msg_set": [1], "fetch": [("flags", None, None, False), ("internaldate", None, None, False),
                                                                                         ("rfc822.size", None, None, False), ("envelope", None, None, False),
                                                                                         ("bodystructure", None, None, False)]}
    # search
    depth = 2 if tier == "quick" else 3
    for s, e in search_programs(depth):
        yield f"{t} SEARCH {s}", {"command": "search", "uid": False, "search": ("and", [e])}
    for s, e in list(search_programs(1))[:25]:
        yield f"{t} UID SEARCH {s}", {"command": "search", "uid": True, "search": ("and", [e])}
        yield f"{t} SEARCH CHARSET UTF-8 {s}", {"command": "search", "uid": False, "search": ("and", [e]), "charset": "utf-8"}
    yield f"{t} SEARCH SEEN FLAGGED 1:3", {"command": "search", "uid": False,
                                           "search": ("and", [("keyword", "\\Seen"), ("keyword", "\\Flagged"), ("message_set", [(1, 3)])])}
    # append
    msg = "From: a@b\r\nSubject: s\r\n\r\nbody {5}\r\nline\r\n"
    for mb in ("INBOX", "with space", "lit\r\nbox"):
        for fm in forms(mb)[:2]:
            for fl, fe in FLAGLISTS[:3]:
                for dt, de in (("", None), ('"01-Jan-2024 10:11:12 +0100" ', (2024, 1, 1, 10, 11, 12, 60)), ('" 5-Feb-1999 00:00:00 -0800" ', (1999, 2, 5, 0, 0, 0, -480)),
                               ('"31-Dec-2023 23:59:58 -0330" ', (2023, 12, 31, 23, 59, 58, -210)), ('"29-Feb-2024 12:34:56 +0545" ', (2024, 2, 29, 12, 34, 56, 345)),
                               ('"01-Mar-2024 00:25:23 -0045" ', (2024, 3, 1, 0, 25, 23, -45)), ('"15-Jul-2010 06:07:08 -0000" ', (2010, 7, 15, 6, 7, 8, 0))):
                    for plus in ("", "+"):
                        flpart = (fl + " ") if fl != "()" or True else ""
                        yield (f"{t} APPEND {fm} {flpart}{dt}{{{len(msg)}{plus}}}\r\n{msg}",
                               {"command": "append", "mailbox_name": mb, "flags": fe, "date": de, "message_body": "body {5}\r\nline\r\n"})
    yield f"{t} APPEND INBOX {{{len(msg)}}}\r\n{msg}", {"command": "append", "mailbox_name": "INBOX", "flags": [], "date": None,
                                                         "message_body": "body {5}\r\nline\r\n"}
    # list
    for ref in ("", "a/", "INBOX", "#news."):
        for pat in ("*", "%", "a/%", "INBOX", "x*y%z", "with space"):
            for fr in forms(ref, ("quoted", "literal")) if ref == "" else forms(ref, ("atom", "quoted")):
                for fp in ([pat] if " " not in pat else []) + ['"' + pat + '"']:
                    for c in ("LIST", "LSUB"):
                        yield f"{t} {c} {fr} {fp}", {"command": c.lower(), "ref": ref, "list_mailbox": pat}
    LX = [
        ('LIST (SUBSCRIBED) "" "*"', {"sel": ["subscribed"], "ref": "", "list_mailbox": "*"}),
        ('LIST (SUBSCRIBED RECURSIVEMATCH) "" "%"', {"sel": ["recursivematch", "subscribed"], "ref": "", "list_mailbox": "%"}),
        ('LIST (REMOTE) "" "*"', {"sel": ["remote"], "ref": "", "list_mailbox": "*"}),
        ('LIST () "" "*"', {"sel": [], "ref": "", "list_mailbox": "*"}),
        ('LIST "" ("a*" "INBOX" b%)', {"ref": "", "patterns": ["a*", "inbox", "b%"]}),
        ('LIST "" "*" RETURN (CHILDREN)', {"ref": "", "list_mailbox": "*", "ret": ["children"]}),
        ('LIST "" "*" RETURN (SUBSCRIBED CHILDREN)', {"ref": "", "list_mailbox": "*", "ret": ["children", "subscribed"]}),
        ('LIST "" "%" RETURN (STATUS (MESSAGES UNSEEN))', {"ref": "", "list_mailbox": "%", "ret": ["status"], "status": ["messages", "unseen"]}),
        ('LIST (SUBSCRIBED) "" ("x" "y") RETURN (CHILDREN STATUS (UIDNEXT))', {"sel": ["subscribed"], "ref": "", "patterns": ["x", "y"],
                                                                               "ret": ["children", "status"], "status": ["uidnext"]}),
        ('LIST "" "*" RETURN ()', {"ref": "", "list_mailbox": "*", "ret": []}),
        ('LIST "" "*" RETURN (SPECIAL-USE)', {"ref": "", "list_mailbox": "*", "ret": ["special-use"]}),
    ]
    for s, e in LX:
        yield f"{t} {s}", dict(e, command="list")
    yield f'{t} ID NIL', {"command": "id", "id": {}}
    yield f'{t} ID ("name" "x" "version" NIL)', {"command": "id", "id": {"name": "x", "version": None}}
    yield f'{t} AUTHENTICATE PLAIN', {"command": "authenticate"}


def search_programs(depth):
    d = datetime.date
    atoms = [
        ("ALL", ("all",)), ("ANSWERED", ("keyword", "\\Answered")), ("DELETED", ("keyword", "\\Deleted")), ("DRAFT", ("keyword", "\\Draft")),
        ("FLAGGED", ("keyword", "\\Flagged")), ("SEEN", ("keyword", "\\Seen")), ("RECENT", ("keyword", "\\Recent")),
        ("UNANSWERED", ("not", ("keyword", "\\Answered"))), ("UNDELETED", ("not", ("keyword", "\\Deleted"))), ("UNDRAFT", ("not", ("keyword", "\\Draft"))),
        ("UNFLAGGED", ("not", ("keyword", "\\Flagged"))), ("UNSEEN", ("not", ("keyword", "\\Seen"))),
        ("NEW", ("and", [("keyword", "\\Recent"), ("not", ("keyword", "\\Seen"))])), ("OLD", ("not", ("keyword", "\\Recent"))),
        ("KEYWORD $Fwd", ("keyword", "$Fwd")), ("UNKEYWORD kw", ("not", ("keyword", "kw"))),
        ("LARGER 100", ("larger", 100)), ("SMALLER 0", ("smaller", 0)),
        ("BEFORE 1-Feb-2020", ("before", d(2020, 2, 1))), ('ON "01-Jan-1999"', ("on", d(1999, 1, 1))), ("SINCE 31-Dec-2021", ("since", d(2021, 12, 31))),
        ("SENTBEFORE 9-Mar-2001", ("sentbefore", d(2001, 3, 9))), ("SENTON 10-apr-2010", ("senton", d(2010, 4, 10))), ("SENTSINCE 2-May-2002", ("sentsince", d(2002, 5, 2))),
        ("FROM Smith", ("header", "from", "smith")), ('TO "a b"', ("header", "to", "a b")), ("CC {3}\r\nx y", ("header", "cc", "x y")), ("BCC q", ("header", "bcc", "q")),
        ("SUBJECT Hello", ("header", "subject", "hello")), ('HEADER X-Foo "Ba\\"r"', ("header", "x-foo", 'ba"r')), ('HEADER Message-ID ""', ("header", "message-id", "")),
        ("BODY word", ("body", "word")), ('TEXT "two words"', ("text", "two words")),
        ("UID 1:5,9", ("uid", [(1, 5), 9])), ("UID *", ("uid", ["*"])), ("2:4", ("message_set", [(2, 4)])), ("1,*", ("message_set", [1, "*"])),
    ]
    for a in atoms:
        yield a
    if depth >= 2:
        sub = atoms[::4]
        for s, e in sub:
            yield f"NOT {s}", ("not", e)
            yield f"({s})", e
        for (s1, e1), (s2, e2) in itertools.product(sub[:6], sub[3:9]):
            yield f"OR {s1} {s2}", ("or", [e1, e2])
            yield f"({s1} {s2})", ("and", [e1, e2])
    if depth >= 3:
        sub = atoms[::6]
        for (s1, e1), (s2, e2), (s3, e3) in itertools.product(sub[:4], sub[2:6], sub[4:7]):
            yield f"OR NOT {s1} ({s2} {s3})", ("or", [("not", e1), ("and", [e2, e3])])
            yield f"NOT (OR {s1} {s2})", ("not", ("or", [e1, e2]))
            yield f"OR (OR {s1} {s2}) NOT {s3}", ("or", [("or", [e1, e2]), ("not", e3)])


# ------------------------------------------------------------------------------------------
def canon_search(s):
    op = s.op.value if hasattr(s.op, "value") else str(s.op)
    a = s.args
    if op in ("and", "or"):
        return (op, [canon_search(x) for x in a["search_key"]])
    if op == "not":
        return ("not", canon_search(a["search_key"]))
    if op == "keyword":
        return ("keyword", a["keyword"])
    if op == "header":
        return ("header", a["header"], a["string"])
    if op in ("body", "text"):
        return (op, a["string"])
    if op in ("larger", "smaller"):
        return (op, a["n"])
    if op in ("before", "on", "since", "sentbefore", "senton", "sentsince"):
        return (op, a["date"])
    if op in ("uid", "message_set"):
        return (op, list(a["msg_set"]))
    if op == "all":
        return ("all",)
    return (op, repr(sorted(a.items())))


def meaning(cmd) -> dict:
    """What the parsed IMAPClientCommand means, in the generator's vocabulary."""
    out = {"command": cmd.command, "uid": bool(cmd.uid_command)}
    c = cmd.command
    g = lambda n, d=None: getattr(cmd, n, d)  # noqa: E731
    if c in ("select", "examine", "create", "delete", "subscribe", "unsubscribe", "status", "copy", "move", "append"):
        out["mailbox_name"] = g("mailbox_name")
    if c == "status":
        out["status"] = [x.value for x in g("status_att_list")]
    if c == "rename":
        out["src"], out["dst"] = g("mailbox_src_name"), g("mailbox_dst_name")
    if c == "login":
        out["user"], out["password"] = g("user_name"), g("password")
    if c in ("copy", "move", "fetch", "store", "expunge"):
        out["msg_set"] = list(g("msg_set") or [])
    if c == "store":
        out["store_action"] = {"REPLACE_FLAGS": "replace", "ADD_FLAGS": "add", "REMOVE_FLAGS": "remove"}[g("store_action").name]
        out["silent"] = bool(g("silent"))
        out["flags"] = list(g("flag_list"))
    if c == "fetch":
        out["fetch"] = [(fa.attribute.value, fa.section, fa.partial, bool(fa.peek)) for fa in g("fetch_atts")]
    if c == "search":
        out["search"] = canon_search(g("search_key"))
        out["charset"] = g("charset")
    if c == "append":
        out["flags"] = list(g("flag_list") or [])
        dt = g("date_time")
        out["date"] = None if dt is None else (dt.year, dt.month, dt.day, dt.hour, dt.minute, dt.second,
                                               int(dt.utcoffset().total_seconds() // 60) if dt.utcoffset() is not None else None)
        m = g("message")
        try:
            out["message_body"] = m.get_payload()
        except Exception as e:  # pragma: no cover
            out["message_body"] = repr(e)
    if c in ("list", "lsub"):
        out["ref"] = g("mailbox_name")
        out["list_mailbox"] = g("list_mailbox")
        out["patterns"] = list(g("list_patterns") or [])
        out["sel"] = sorted(x.value for x in (g("list_select_opts") or []))
        out["ret"] = sorted(x.value for x in (g("list_return_opts") or []))
        out["status"] = [x.value for x in (g("list_status_atts") or [])]
    if c == "id":
        out["id"] = dict(g("id_dict") or {})
    return out


def compare(exp: dict, got: dict):
    """Returns list of (field, expected, got)."""
    diffs = []
    for k, v in exp.items():
        gv = got.get(k)
        if k in ("mailbox_name", "src", "dst"):
            if norm_mbox(v) != norm_mbox(gv):
                diffs.append((k, v, gv))
        elif k == "ref":
            if (gv or "") not in (v, norm_mbox(v), (norm_mbox(v) or "") + "/"):
                if not (v.endswith("/") and (gv or "") == v):
                    diffs.append((k, v, gv))
        elif k == "fetch":
            ge = [(a, (list(s) if s is not None else None), p, pk) for a, s, p, pk in gv]
            ee = [(a, (list(s) if s is not None else None), p, pk) for a, s, p, pk in v]

            def nrm(sec):
                if sec is None:
                    return None
                return [((x[0], list(x[1])) if isinstance(x, tuple) else x) for x in sec]

            ge = [(a, nrm(s), tuple(p) if p else None, pk) for a, s, p, pk in ge]
            ee = [(a, nrm(s), tuple(p) if p else None, pk) for a, s, p, pk in ee]
            if ge != ee:
                diffs.append((k, ee, ge))
        elif k == "search":
            if _ns(v) != _ns(gv):
                diffs.append((k, _ns(v), _ns(gv)))
        elif gv != v:
            diffs.append((k, v, gv))
    return diffs


def _ns(x):
    if isinstance(x, (list, tuple)):
        return [_ns(i) for i in x]
    return x


# ------------------------------------------------------------------------------------------
def parse_one(sentence: str):
    from asimap.parse import BadCommand, IMAPClientCommand

    cmd = IMAPClientCommand(sentence)
    try:
        cmd.parse()
    except BadCommand as e:
        return "bad", cmd, e
    except BaseException as e:  # noqa: B036
        if isinstance(e, (KeyboardInterrupt, SystemExit)):
            raise
        return "crash", cmd, e
    return "ok", cmd, None


def work_grammar(unit):
    fails = []
    n = 0
    kinds = set()
    for s, exp in unit:
        n += 1
        st, cmd, err = parse_one(s)
        kinds.add((exp["command"], st))
        # the independent recogniser must read the generated sentence the way the generator meant it (this validates the oracle
        # used for the mutants; a disagreement is a bug in the machinery and is reported as such, not as a violation)
        from ..refmodel.cmdgrammar import recognise

        w = recognise(s)
        if w[0] != "ok" or compare({k: v for k, v in exp.items() if k not in ("message_body", "command")}, w[1]):
            raise AssertionError(f"recogniser/generator disagree on {s!r}: {w!r} vs {exp!r}")
        if st != "ok":
            fails.append(Failure(PROP, "C08.valid-sentence-rejected" if st == "bad" else "C08.parser-crash",
                                 {"command": exp["command"], "exc": type(err).__name__, "hint": _hint(s)}, {"driver": "c08", "sentence": s, "expected": _j(exp)},
                                 "accepted", repr(err)[:200]))
            continue
        if cmd.input != "":
            fails.append(Failure(PROP, "C08.input-left-unparsed", {"command": exp["command"], "hint": _hint(s)},
                                 {"driver": "c08", "sentence": s, "expected": _j(exp)}, "", cmd.input[:60]))
        d = compare(exp, meaning(cmd))
        if d:
            fails.append(Failure(PROP, "C08.meaning", {"command": exp["command"], "field": d[0][0], "hint": _hint(s)},
                                 {"driver": "c08", "sentence": s, "expected": _j(exp)}, _j(d[0][1]), _j(d[0][2])))
    # parsing must not depend on what was parsed before: the ill-formed sentences are still rejected after this unit's
    # (valid) sentences have gone through the same parser in the same process
    for r in STRICT_REJECTS:
        n += 1
        st, cmd, err = parse_one(r)
        if st == "ok":
            fails.append(Failure(PROP, "C08.ill-formed-accepted", {"class": "after-other-commands", "command": cmd.command},
                                 {"driver": "c08-rej", "sentence": r, "after": unit[0][0] if unit else None}, "BadCommand",
                                 f"parsed as {cmd.command} after {len(unit)} valid sentences in this process"))
    return fails, n, kinds


def _hint(s: str) -> str:
    h = []
    if "{" in s and "+}" in s:
        h.append("literal+")
    elif "{" in s:
        h.append("literal")
    if '\\"' in s or "\\\\" in s:
        h.append("quoted-escape")
    if any(ord(c) > 127 for c in s):
        h.append("8bit")
    low = s.lower()
    if "inbox" in low and "inbox " not in low + " " and "inbox\"" not in low:
        h.append("inbox-prefix")
    return "+".join(h)


def _j(x):
    import json

    return json.loads(json.dumps(x, default=str))


def mutations(s: str, double=False):
    seen = set()
    for i in range(len(s) + 1):
        t = s[:i]
        if t not in seen:
            seen.add(t)
            yield t
    for i in range(len(s)):
        t = s[:i] + s[i + 1:]
        if t not in seen:
            seen.add(t)
            yield t
        for ch in EDIT_CHARS:
            for t in (s[:i] + ch + s[i:], s[:i] + ch + s[i + 1:]):
                if t not in seen:
                    seen.add(t)
                    yield t


def diff_one(m, st, cmd, err, driver="c08-mut"):
    """Differential acceptance of one sentence against the independent recogniser (vf/refmodel/cmdgrammar.py)."""
    from ..refmodel.cmdgrammar import classify_overacceptance, recognise

    fails = []
    want = recognise(m)
    rp = {"driver": driver, "sentence": m}
    if st == "crash":
        fails.append(Failure(PROP, "C08.parser-crash", {"exc": type(err).__name__, "command": (cmd.command or "?")[:12]}, rp, "BadCommand or a parse", repr(err)[:200]))
    elif st == "ok" and cmd.input != "":
        if want[0] == "ok":
            # a sentence of the language of which only a prefix was understood: the run loop ignores the rest
            fails.append(Failure(PROP, "C08.valid-sentence-cut-short", {"command": cmd.command, "left_starts": _shape(cmd.input[:2])}, rp, _j(want[1]),
                                 f"parsed as {_j(meaning(cmd))}, left over {cmd.input[:40]!r}"))
        else:
            fails.append(Failure(PROP, "C08.input-left-unparsed", {"command": cmd.command, "hint": "mutant"}, rp, "", cmd.input[:60]))
    elif st == "ok":
        if want[0] == "bad":
            cls = classify_overacceptance(m) or "unexplained"
            fails.append(Failure(PROP, "C08.ill-formed-accepted", {"class": cls, "command": cmd.command}, rp, f"BadCommand ({want[1]})",
                                 f"parsed as {_j(meaning(cmd))}"))
        elif want[0] == "ok":
            exp = dict(want[1])
            got = meaning(cmd)
            if "message_raw" in exp:
                from email import message_from_bytes, policy

                try:
                    exp["message_body"] = message_from_bytes(exp.pop("message_raw").encode("latin-1"), policy=policy.SMTP).get_payload()
                except Exception:  # the stdlib could not parse the octets: nothing to compare
                    exp.pop("message_raw", None)
            d = compare(exp, got)
            if d:
                det = {"command": exp["command"], "field": d[0][0], "hint": "mutant"}
                if d[0][0] == "date" and d[0][1] and d[0][1][0] < 100:
                    det["year_below_100"] = True
                fails.append(Failure(PROP, "C08.meaning", det, rp, _j(d[0][1]), _j(d[0][2])))
    elif st == "bad" and want[0] == "ok":
        fails.append(Failure(PROP, "C08.valid-sentence-rejected", {"command": want[1]["command"], "exc": type(err).__name__, "hint": "mutant", "stopped_at": _shape(cmd.input[:1])},
                             rp, "accepted", repr(err)[:200]))
    return fails, want[0]


def _shape(s: str) -> str:
    """A coarse shape of a piece of input for failure signatures (letters -> a, digits -> 9, runs collapsed)."""
    out = []
    for c in s[:24]:
        k = "a" if c.isalpha() else "9" if c.isdigit() else c
        if not out or out[-1] != k:
            out.append(k)
    return "".join(out)


def work_total(unit):
    fails = []
    n = acc = 0
    verdicts = {}
    for s, double in unit:
        muts = mutations(s)
        if double:
            first = list(mutations(s))
            muts = itertools.chain(first, (m2 for m1 in first[: 400] for m2 in mutations(m1)))
        for m in muts:
            n += 1
            st, cmd, err = parse_one(m)
            f, want = diff_one(m, st, cmd, err)
            fails.extend(f)
            verdicts[(want, st)] = verdicts.get((want, st), 0) + 1
            if st == "ok":
                acc += 1
    return fails, n, (acc, verdicts)


def work_runloop(unit):
    """Rejected sentences through the real run loop: BAD and the connection stays open."""
    from ..world import World

    fails = []
    w = World(None)
    n = 0
    try:
        w.start()
        s = w.connect("A")
        for sentence in unit:
            if s.task.done():
                s = w.connect(f"A{n}")
            n += 1
            n0 = len(s.responses)
            s.send_raw(sentence.encode("latin-1"))
            w.loop.run_until(lambda: len(s.responses) > n0 or s.task.done(), horizon=w.loop.time() + 10)
            w.loop.settle()
            new = s.responses[n0:]
            bad = [r for r in new if r.typ == "BAD"]
            if not bad:
                fails.append(Failure(PROP, "C08.rejected-without-BAD", {"closed": s.task.done()}, {"driver": "c08-run", "sentence": sentence, "first": unit[0]}, "BAD",
                                     [r.raw[:80].decode("latin-1") for r in new]))
            r2, _ = s.do("NOOP", horizon=10)
            if r2 is None or r2.typ != "OK":
                fails.append(Failure(PROP, "C08.connection-dropped-after-BAD", {"closed": s.task.done()}, {"driver": "c08-run", "sentence": sentence, "first": unit[0]},
                                     "NOOP answered OK after the BAD", str(r2)))
    finally:
        w.close()
    return fails, n, 0


# ------------------------------------------------------------------------------------------
# sequence sets: every string over a small alphabet, decided by an independent recogniser
SET_ALPHABET = ["1", "7", "2", ":", "*", ","]
SET_POSITIONS = [
    ("a FETCH %s FLAGS", "fetch", False), ("a UID FETCH %s FLAGS", "fetch", True), ("a STORE %s +FLAGS (x)", "store", False),
    ("a COPY %s m", "copy", False), ("a UID MOVE %s m", "move", True), ("a UID EXPUNGE %s", "expunge", True),
    ("a SEARCH %s", "search", False), ("a SEARCH UID %s", "search-uid", False), ("a SEARCH NOT %s", "search-not", False),
]


def recognise_set(s: str):
    """RFC 3501 sequence-set -> list of elements (int | '*' | (a, b)), or None if `s` is not one.
    seq-number = nz-number / "*";  seq-range = seq-number ":" seq-number;  set = elem *("," elem)."""
    out = []
    for part in s.split(","):
        halves = part.split(":")
        if not 1 <= len(halves) <= 2:
            return None
        vals = []
        for h in halves:
            if h == "*":
                vals.append("*")
            elif h.isdigit() and h.isascii() and h[0] != "0":
                vals.append(int(h))
            else:
                return None
        out.append(vals[0] if len(vals) == 1 else (vals[0], vals[1]))
    return out


def set_strings(maxlen: int):
    for n in range(1, maxlen + 1):
        for tup in itertools.product(SET_ALPHABET, repeat=n):
            yield "".join(tup)


def work_sets(unit):
    fails = []
    n = 0
    kinds = set()
    for s in unit:
        want = recognise_set(s)
        for tmpl, what, uid in SET_POSITIONS:
            n += 1
            sentence = tmpl % s
            st, cmd, err = parse_one(sentence)
            kinds.add((what, want is not None, st))
            rp = {"driver": "c08-set", "sentence": sentence, "set": s}
            if st == "crash":
                fails.append(Failure(PROP, "C08.parser-crash", {"exc": type(err).__name__, "command": what}, rp, "BadCommand or a parse", repr(err)[:200]))
            elif want is None and st == "ok":
                fails.append(Failure(PROP, "C08.ill-formed-accepted", {"class": "sequence-set", "command": what}, rp, "BadCommand",
                                     f"parsed, left over {cmd.input[:20]!r}"))
            elif want is not None and st != "ok":
                fails.append(Failure(PROP, "C08.valid-sentence-rejected", {"command": what, "exc": type(err).__name__, "hint": "sequence-set"}, rp,
                                     "accepted", repr(err)[:200]))
            elif want is not None:
                if what.startswith("search"):
                    got = canon_search(cmd.search_key)
                    flat = json_find_set(got)
                    if flat is None or _ns(flat) != _ns(want):
                        fails.append(Failure(PROP, "C08.meaning", {"command": what, "field": "search-set", "hint": "sequence-set"}, rp, _j(want), _j(got)))
                elif _ns(list(cmd.msg_set or [])) != _ns(want):
                    fails.append(Failure(PROP, "C08.meaning", {"command": what, "field": "msg_set", "hint": "sequence-set"}, rp, _j(want), _j(list(cmd.msg_set or []))))
    return fails, n, kinds


def json_find_set(x):
    """The message-set operand inside a canonical search key (first list of ints/'*'/pairs found)."""
    def is_set(v):
        return isinstance(v, (list, tuple)) and v and all(isinstance(e, int) or e == "*" or (isinstance(e, (list, tuple)) and len(e) == 2 and
                                                                                               all(isinstance(q, int) or q == "*" for q in e)) for e in v)
    if is_set(x):
        return x
    if isinstance(x, (list, tuple)):
        for e in x:
            r = json_find_set(e)
            if r is not None:
                return r
    return None


# ill-formed sentences that no leniency finding covers: they must be rejected whatever was parsed before
STRICT_REJECTS = ["a1 FETCH 1 BODY[MIME]", "a1 FETCH 1 BODY.PEEK[MIME]<0.10>", "a1 FETCH 1 BODY[1.BOGUS]", "a1 FETCH 1 BODY[HEADER.FIELDS]", "a1 FETCH 1 BODY[TEXT.1]",
                  "a1 FETCH 1 (FLAGS BODY[MIME])", "a1 SEARCH OR ALL", "a1 STORE 1 +FLAG (x)", "a1 FETCH 1 RFC822.BOGUS", "a1 SEARCH SINCE 99-Jan-2020"]


def core_sentences(tier):
    import hashlib

    allg = [s for s, _ in gen_sentences("quick")]
    step = 1  # every generated quick-grammar sentence is a core sentence (the differential pass costs ~15 s on 16 cores)
    core = [s for i, s in enumerate(allg) if i % step == 0]
    return core


REJECTS = ["a1", "a1 ", "a1 BOGUS", "a1 FETCH", "a1 FETCH 1", "a1 FETCH 1 (", "a1 STORE 1 +FLAG (x)", "a1 SEARCH", "a1 SEARCH FOO", "* NOOP x y",
           "a1 SELECT", "a1 LIST", 'a1 LIST "" ', "a1 UID", "a1 UID NOOP", "a1 APPEND INBOX {5}\r\nab", "a1 SEARCH BEFORE 31-Feb-2020",
           "a1 FETCH 1 BODY[1.]", "a1 FETCH 1 BODY[", "a1 COPY 1", "a1 STATUS x ()", "a1 SEARCH OR ALL", "a1 SEARCH NOT", "a1 FETCH 0:x FLAGS",
           "a1 SEARCH LARGER x", "a1 SEARCH UID", "a1 STORE 1 FLAGS (\\Seen", "a1 FETCH 1 BODY[]<1>", "a1 FETCH 1 BODY[]<1.>", "a1 NOOP garbage",
           "a1 SELECT inboxes extra", "a1 CREATE \"unterminated", "a1 FETCH 1 RFC822.BOGUS", "", " ", "a1 SEARCH ON 1-Foo-2020", "a1 SEARCH SINCE 99-Jan-2020"]


def run(tier, seed, jobs) -> Result:
    res = Result(level="exploration")
    sents = list(gen_sentences(tier))
    units = [sents[i : i + 400] for i in range(0, len(sents), 400)]
    ng = 0
    kinds = set()
    for f, n, k in pmap(work_grammar, seeded_order(units, seed), jobs):
        res.failures.extend(f)
        ng += n
        kinds |= k
    core = core_sentences(tier)
    tunits = []
    for i in range(0, len(core), 6):
        tunits.append([(s, tier != "quick" and len(s) <= 24) for s in core[i : i + 6]])
    nm = nacc = 0
    verdicts = {}
    for f, n, (a, v) in pmap(work_total, seeded_order(tunits, seed), jobs):
        res.failures.extend(f)
        nm += n
        nacc += a
        for k, c in v.items():
            verdicts[k] = verdicts.get(k, 0) + c
    rj = list(REJECTS)
    for s in core[:: 7]:
        rj.extend([s[: len(s) // 2], s + " )", s.replace(" ", "  ", 1)])
    # a fixed list of ill-formed sentences has no RFC 3501 reading: accepting one is a violation
    for r in REJECTS:
        st, cmd, err = parse_one(r)
        if st == "ok":
            from ..refmodel.cmdgrammar import classify_overacceptance

            cls = "trailing-input" if cmd.input != "" else (classify_overacceptance(r) or "lenient-syntax")
            res.failures.append(Failure(PROP, "C08.ill-formed-accepted", {"class": cls, "command": cmd.command},
                                        {"driver": "c08-rej", "sentence": r}, "BadCommand", f"parsed as {cmd.command}, left over {cmd.input[:20]!r}"))
    rj = [r for r in rj if parse_one(r)[0] != "ok"]
    # (the very first line of a connection is a line like any other: `POP3` is what the POP3 front-end announces itself with)
    rj = ["POP3"] + rj
    runits = [rj[i : i + 40] for i in range(0, len(rj), 40)] + [["POP3 "], ["pop3"], ["POP3", "a1 FETCH 1 ("]]
    nr = 0
    for f, n, _ in pmap(work_runloop, runits, jobs):
        res.failures.extend(f)
        nr += n
    # every string over SET_ALPHABET up to length 5 (quick) / 6 (thorough) in every message-set position
    allsets = list(set_strings(5 if tier == "quick" else 6))
    nsets = 0
    for f, n, k in pmap(work_sets, seeded_order([allsets[i : i + 300] for i in range(0, len(allsets), 300)], seed), jobs):
        res.failures.extend(f)
        nsets += n
        kinds |= {("set",) + x for x in k}
    ng += nsets
    res.coverage = {
        "evaluations": ng + nm + nr,
        "distinct_nontrivial": ng + nacc + nr,
        "sequence_set_strings": len(allsets),
        "sequence_set_well_formed": sum(1 for x in allsets if recognise_set(x) is not None),
        "rule": "grammar: every generated sentence is distinct; mutants are de-duplicated per core sentence; non-trivial = grammar sentences + mutants the parser "
                "accepts + rejected sentences replayed through the run loop",
        "grammar_sentences": ng,
        "mutants": nm,
        "mutants_accepted": nacc,
        "mutant_verdicts_recogniser_x_parser": {f"{a}/{b}": c for (a, b), c in sorted(verdicts.items())},
        "core_sentences": len(core),
        "runloop_rejects": nr,
        "command_outcomes": len(kinds),
        "exhaustive": True,
        "samples": [sents[5][0], sents[len(sents) // 2][0], sents[-3][0]],
    }
    res.assumptions = ["the grammar is bounded (see gen_sentences): search nesting depth %d, 13 mailbox names x 4 astring forms, 8 sequence sets, 25 fetch items" % (2 if tier == "quick" else 3),
                       "sequence sets: all %d strings over %r of length <=%d in 9 message-set positions are decided by an independent recogniser of the RFC 3501 "
                       "grammar (well-formed -> accepted with exactly that meaning; otherwise rejected)" % (len(allsets), SET_ALPHABET, 5 if tier == "quick" else 6),
                       "differential acceptance: every truncation / edit of a core sentence is also read by an independent recogniser of the RFC 3501 command grammar "
                       "(vf/refmodel/cmdgrammar.py): in the language <=> accepted, with the same meaning; octets >= 0x80 are read as ordinary atom / text characters; "
                       "dates and date-times that are syntactically right but denote nothing (31-Feb) may be answered either way",
                       "search keys are compared in a canonical form that identifies FROM x with HEADER FROM x, NEW with (RECENT UNSEEN), UNx with NOT x"]
    return res


def replay(rec):
    rp = rec["replay"]
    if rp["driver"] == "c08":
        import datetime as _d

        exp = None
        for s, e in gen_sentences("thorough"):
            if s == rp["sentence"]:
                exp = e
                break
        return work_grammar([(rp["sentence"], exp)])[0] if exp else []
    if rp["driver"] == "c08-set":
        return [f for f in work_sets([rp["set"]])[0] if f.replay["sentence"] == rp["sentence"]]
    if rp["driver"] == "c08-mut":
        st, cmd, err = parse_one(rp["sentence"])
        return diff_one(rp["sentence"], st, cmd, err)[0]
    if rp["driver"] == "c08-rej":
        st, cmd, err = parse_one(rp["sentence"])
        return [Failure(PROP, "C08.ill-formed-accepted", {}, rp, None, None)] if st == "ok" else []
    # (what came first on the connection may matter: replay it too)
    unit = [rp["sentence"]] if rp.get("first") in (None, rp["sentence"]) else [rp["first"], rp["sentence"]]
    return [f for f in work_runloop(unit)[0] if f.replay["sentence"] == rp["sentence"]]
