"""
C01 -- message sequence numbers never desynchronise between server and session.

Engine H: breadth-first search over command histories of 2 sessions on a shared INBOX, the
real server on the virtual loop; a per-session monitor replays every untagged EXISTS /
EXPUNGE / FETCH the session is sent (vf.hdriver.HState.on_resp) and checks legality,
binding and flush equality against the reference store.
"""

from __future__ import annotations

from ..explore import hist
from ..runner import Result

PROP = "C01"
RULES = ("C01.",)


def alphabet(tier: str):
    ev = []
    for s in ("A", "B"):
        ev += [
            {"s": s, "op": "select", "m": "INBOX"},
            {"s": s, "op": "noop"},
            {"s": s, "op": "fetch", "set": "1", "items": "(UID)"},
            {"s": s, "op": "fetch", "set": "*", "items": "(UID)"},
            {"s": s, "op": "fetch", "set": "1:*", "items": "(UID)", "uid": True},
            {"s": s, "op": "search", "key": "ALL"},
        ]
    ev += [
        {"s": "A", "op": "append", "m": "INBOX"},
        {"s": "A", "op": "store", "set": "1", "mode": "+", "flags": "\\Deleted"},
        {"s": "A", "op": "store", "set": "*", "mode": "+", "flags": "\\Deleted"},
        {"s": "A", "op": "expunge"},
        {"s": "A", "op": "expunge", "uidset": "1"},
        {"s": "A", "op": "move", "set": "1", "dst": "other"},
        {"s": "A", "op": "copy", "set": "1", "dst": "INBOX"},
        {"s": "A", "op": "close"},
        {"s": "B", "op": "examine", "m": "INBOX"},
        {"s": "B", "op": "idle"},
        {"s": "B", "op": "done"},
        {"s": "B", "op": "check"},
        {"s": "B", "op": "store", "set": "1", "mode": "+", "flags": "\\Flagged"},
        {"s": "env", "op": "deliver", "m": "INBOX"},
        {"s": "env", "op": "poll", "dt": 21.0},
    ]
    if tier == "thorough":
        ev += [
            {"s": "A", "op": "move", "set": "1:*", "dst": "other"},
            {"s": "B", "op": "append", "m": "INBOX"},
            {"s": "B", "op": "expunge"},
            {"s": "A", "op": "idle"},
            {"s": "A", "op": "done"},
        ]
    return ev


def cfg(n):
    from .common import cfg_basic

    return cfg_basic(PROP, n)


def cfg_pending():
    """A non-initial start state: A and B have INBOX(3) selected and B has expunged message 2, so the
    quiet session A holds a pending EXPUNGE: everything found for it from now on goes through its
    notification queue instead of being pushed at once."""
    from .common import cfg_basic

    c = dict(cfg_basic(PROP, 3))
    c["name"] = "c01-pending-expunge"
    c["prelude"] = [{"s": "A", "op": "select", "m": "INBOX"}, {"s": "B", "op": "select", "m": "INBOX"},
                    {"s": "B", "op": "store", "set": "2", "mode": "+", "flags": "\\Deleted", "silent": True}, {"s": "B", "op": "expunge"}]
    return c


def alphabet_pending(tier):
    A, B = "A", "B"
    return [
        {"s": B, "op": "append", "m": "INBOX"},
        {"s": "env", "op": "deliver", "m": "INBOX"},
        {"s": B, "op": "noop"},
        {"s": "env", "op": "poll", "dt": 21.0},
        {"s": B, "op": "del", "set": "*"},
        {"s": B, "op": "store", "set": "1", "mode": "+", "flags": "\\Flagged"},
        {"s": B, "op": "copy", "set": "1", "dst": "INBOX"},
        {"s": A, "op": "noop"},
        {"s": A, "op": "fetch", "set": "1:*", "items": "(UID)", "uid": True},
        {"s": A, "op": "fetch", "set": "*", "items": "(UID)"},
        {"s": A, "op": "idle"},
        {"s": A, "op": "done"},
    ]


def s_scenarios(tier):
    """Schedule part: the notification paths under overlapping commands of two sessions (scenario
    definitions shared with C10; here only the C01 stream rules are reported)."""
    from . import c10

    want = ["reselect,noop|expunge", "re-examine,noop|move", "expunge|noop", "expunge|fetch3", "expunge|store2", "expunge|search", "move1|fetch3",
            "move1|fetchall slow reader", "expunge|fetchall slow reader", "append|fetchflags",
            "expunge|capability,noop slow reader", "expunge|lsub,noop slow reader"]
    by = {sc["name"]: sc for sc in c10.scenarios(tier)}
    return [by[n] for n in want if n in by]


def run(tier, seed, jobs) -> Result:
    from ..explore import sched
    from .hcommon import run_h

    plans = [(2, 4), (0, 3)] if tier == "quick" else [(2, 5), (3, 4), (0, 4)]
    res = run_h(
        PROP, RULES,
        [{"cfg_ref": ("vf.props.c01", "cfg", [n]), "alphabet": alphabet(tier), "depth": d, "label": f"INBOX({n})"} for n, d in plans]
        + [{"cfg_ref": ("vf.props.c01", "cfg_pending", []), "alphabet": alphabet_pending(tier), "depth": 4 if tier == "quick" else 6,
            "label": "INBOX(3), quiet session A holds a pending EXPUNGE"}],
        ("C01",), jobs, seed,
        [
            "2 sessions (A read-write, B read-write/EXAMINE/IDLE), INBOX with 0 or 2 (thorough: 3) messages, one destination mailbox",
            "H part: commands strictly sequential (default schedule); S part: twelve two-session scenarios (shared with C10) under every schedule with "
            "<=2 (thorough 3) deviations, incl. a peer that reads slowly; only the C01 stream rules are reported from it",
            "external deliveries are whole-message events between commands; the folder mtime advances with each delivery",
            "IDLE entry/exit is not required to notice a delivery no session was told about yet (it does not look at the folder); "
            "after 21 virtual seconds of idling it is",
        ],
        time_budget=80 if tier == "quick" else 900,
    )
    per = []
    for sc in s_scenarios(tier):
        from .c10 import thorough_bound

        r = sched.explore(sc, 2 if tier == "quick" else thorough_bound(sc["name"]), jobs, seed, max_exec=20000 if tier == "quick" else 120000)
        res.failures.extend(f for f in r["failures"] if f.rule.startswith("C01."))
        res.coverage["states"] += r["executions"]
        res.coverage["transitions"] += r["steps"]
        res.coverage["traces_validated_against_impl"] += r["executions"]
        per.append({"scenario": sc["name"], "executions": r["executions"], "bound": r["bound_completed"], "outcomes": r["distinct_outcomes"], "cap": r["cap"]})
        if r["cap"]:
            res.coverage["exhaustive"] = False
    res.coverage["schedule_part"] = per
    return res


def replay(rec):
    rp = rec["replay"]
    if rp.get("driver") == "s":
        from ..explore import sched

        _p, _n, _sig, fails, _st = sched.run_one((rp["scenario"], rp["choices"]))
        return [f for f in fails if f.rule.startswith("C01.")]
    from .hcommon import replay_h

    return replay_h("C01.", rec)
