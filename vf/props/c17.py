"""
C17 -- the mailbox list follows the CREATE/DELETE/RENAME/SUBSCRIBE history.

Engine H over namespace commands on a small name alphabet (nesting to depth 3, names with a
space and with regex metacharacters, inbox/s, a SPECIAL-USE name), with SELECT, APPEND and
RESTART interleaved.  After every history LIST and LSUB are issued for a menu of
(reference, pattern) pairs and compared with the namespace model (vf.refmodel.namespace:
`*`/`%` matching by definition); mailboxes are probed for selectability; message content,
UIDs and flags of every mailbox are compared with the store model (RENAME moves the subtree
intact); a refused namespace command must leave folder tree and database rows unchanged.
"""

from __future__ import annotations

PROP = "C17"
RULES = ("C17.", "C05.message-multiset", "C02.uid-assignment", "C04.final-flags", "C05.refused-but-changed", "C05.mailbox-vanished")
NAMES = ["a", "a/b", "a/b/c", "a b", "x+y", "q[1]", "inbox/s", "Drafts", "INBOX", "c"]


def cfg():
    from .. import templates
    from .common import cfg_basic

    c = cfg_basic(PROP, 1, others=("a", "a/b"), other_msgs=1, name="c17")
    c["snapshot_refused"] = True
    c["names"] = NAMES
    return c


def cfg_alike():
    """Names that look alike to pattern machinery: `_` and `%` (SQL LIKE wildcards), letter case, characters that sort below `/`."""
    from .. import msgs, templates

    def setup(w, s):
        for n in ("a_b", "axb", "axb/k", "w", "w/x"):
            templates.must_ok(s, f'CREATE "{n}"')
        templates.append(s, "a_b", "u1", "", n=1)
        templates.append(s, "axb/k", "k1", "", n=2)
        templates.append(s, "INBOX", "m1", "", n=3)

    tmpl = templates.build("c17-alike", setup)
    init = {"INBOX": [(1, "m1", set(), msgs.idate_epoch(3))], "a_b": [(1, "u1", set(), msgs.idate_epoch(1))], "axb": [], "axb/k": [(1, "k1", set(), msgs.idate_epoch(2))],
            "w": [], "w/x": []}
    return {"prop": PROP, "name": "c17-alike", "template": tmpl, "init": init, "mode": "new", "driver": "h", "loopopts": {}, "snapshot_refused": True,
            "names": ["a_b", "axb", "axb/k", "w", "w/x", "w-old", "w 2", "Axb", "AXB/k", "z", "z/k", "INBOX"]}


def alphabet_alike(tier):
    A = "A"
    ev = [{"s": A, "op": "rename", "m": a, "to": b} for a, b in [("a_b", "z"), ("axb", "z"), ("w", "z"), ("a_b", "a%b"), ("w/x", "w-old"), ("axb", "Axb")]]
    ev += [{"s": A, "op": "create", "m": n} for n in ("w-old", "w 2", "Axb", "AXB/k", "a%b")]
    ev += [{"s": A, "op": "delete", "m": n} for n in ("a_b", "axb", "w/x", "w-old", "axb/k")]
    ev += [{"s": A, "op": "subscribe", "m": "axb/k"}, {"s": A, "op": "subscribe", "m": "w"}, {"s": "env", "op": "restart"}]
    return ev


def alphabet(tier):
    A = "A"
    ev = []
    for n in ["a", "a/b", "a/b/c", "a b", "x+y", "q[1]", "inbox/s", "Drafts", "INBOX"]:
        ev.append({"s": A, "op": "create", "m": n})
    for n in ["a", "a/b", "a/b/c", "a b", "q[1]", "INBOX", "inbox/s"]:
        ev.append({"s": A, "op": "delete", "m": n})
    for a, b in [("a", "c"), ("a/b", "a b"), ("a", "a/b/d"), ("INBOX", "c"), ("a b", "x+y"), ("a/b", "c"), ("c", "a"), ("a", "q[1]")]:
        ev.append({"s": A, "op": "rename", "m": a, "to": b})
    for n in ["a", "a/b", "INBOX", "nosuch"]:
        ev.append({"s": A, "op": "subscribe", "m": n})
    for n in ["a", "a/b"]:
        ev.append({"s": A, "op": "unsubscribe", "m": n})
    # the same names behind the advertised namespace prefix `/` must behave as the bare names
    ev += [{"s": A, "op": "delete", "m": "/a"}, {"s": A, "op": "delete", "m": "/INBOX"}, {"s": A, "op": "delete", "m": "/a/b"},
           {"s": A, "op": "create", "m": "/z"}, {"s": A, "op": "rename", "m": "/a", "to": "/c"}, {"s": A, "op": "subscribe", "m": "/a/b"}]
    # names with an all-digit component (what MH takes for a message)
    ev += [{"s": A, "op": "create", "m": "a/7"}, {"s": A, "op": "create", "m": "a/7/k"}, {"s": A, "op": "rename", "m": "a/b", "to": "inbox/7"},
           {"s": A, "op": "rename", "m": "a", "to": "42"}]
    ev += [{"s": A, "op": "select", "m": "a"}, {"s": "B", "op": "select", "m": "a/b"}, {"s": A, "op": "append", "m": "a/b"},
           {"s": "env", "op": "restart"}]
    return ev


def run(tier, seed, jobs):
    from .hcommon import run_h

    A = "A"
    core = [{"s": A, "op": "delete", "m": "a"}, {"s": A, "op": "create", "m": "a"}, {"s": A, "op": "rename", "m": "a", "to": "c"},
            {"s": A, "op": "rename", "m": "c", "to": "a"}, {"s": A, "op": "subscribe", "m": "a"}, {"s": A, "op": "unsubscribe", "m": "a"},
            {"s": A, "op": "delete", "m": "a/b"}, {"s": A, "op": "create", "m": "a/b"}]
    return run_h(PROP, RULES, [{"cfg_ref": ("vf.props.c17", "cfg", []), "alphabet": alphabet(tier), "depth": 3,
                                "label": "INBOX(1), a(1), a/b"},
                               {"cfg_ref": ("vf.props.c17", "cfg", []), "alphabet": core, "depth": 4 if tier == "quick" else 5,
                                "label": "core alphabet (delete/create/rename/subscribe of a and a/b), deep"},
                               {"cfg_ref": ("vf.props.c17", "cfg_alike", []), "alphabet": alphabet_alike(tier), "depth": 2 if tier == "quick" else 3,
                                "label": "look-alike names: a_b / axb / axb/k (LIKE wildcards), w / w/x / w-old (sorting below '/'), letter case"}],
                 ("C17", "C05"), jobs, seed,
                 ["names from a fixed alphabet of 10 (nesting depth 3, space, +, [ ], inbox/s, Drafts); 14 (reference, pattern) pairs for LIST and LSUB after every history",
                  "asimap's documented rule 'a deleted mailbox that is subscribed or has inferiors is kept as \\Noselect' is part of the model; attributes other than "
                  "\\Noselect/\\HasChildren/\\HasNoChildren (SPECIAL-USE, \\Marked) are not compared",
                  "LIST-EXTENDED selection/return options are not part of this check's menu"],
                 time_budget=170 if tier == "quick" else 900)


def replay(rec):
    from .hcommon import replay_h

    return replay_h("C", rec)
