"""
C14 -- SEARCH returns exactly the messages that satisfy the criteria.

Engine E: every program built from ~70 atomic keys (flags, KEYWORD/UNKEYWORD, LARGER/SMALLER
at size-1/size/size+1, BEFORE/ON/SINCE/SENT* at day-1/day/day+1, HEADER/FROM/TO/CC/BCC/
SUBJECT/BODY/TEXT with present/absent/mixed-case needles, UID and sequence sets, ALL/NEW/OLD)
as k, NOT k, OR k k', (k k') -- thorough: one more nesting level over a sub-alphabet -- is run
as SEARCH and UID SEARCH on 3 corpora of 5 designed messages through the real server.
Oracle: an independent evaluator (vf.refmodel.search) over facts the same session was shown
(FETCH FLAGS / RFC822.SIZE / INTERNALDATE) and the harness's knowledge of headers and bodies;
UID SEARCH must equal SEARCH mapped through the UID table.
"""

from __future__ import annotations

import itertools

from .. import msgs, templates
from ..refmodel import search as RS
from ..respparse import fetch_items
from ..runner import Failure, Result, pmap, seeded_order
from ..sessions import imap_literal
from ..world import World

PROP = "C14"

CORPORA = {
    "c1": [
        dict(cid="s1", flags="\\Seen \\Answered", day=10, sent="Wed, 10 Jan 2024 22:15:00 -0800", frm="Alice Example <alice@example.com>", to="bob@example.org",
             subj="Quarterly REPORT attached", cc="carol@example.net", body="Please find the report.\r\nRegards, Alice\r\n"),
        dict(cid="s2", flags="\\Flagged kwone", day=11, sent="Thu, 11 Jan 2024 23:59:59 +0000", frm="bob@example.org", to="Alice <alice@example.com>",
             subj="re: quarterly report", body="Thanks.\r\nNothing else.\r\n", xhdr="X-Empty:"),
        dict(cid="s3", flags="\\Deleted \\Draft", day=11, sent="Fri, 12 Jan 2024 01:30:00 +0500", frm="dave@example.com", to="list@example.com",
             subj="unrelated topic", bcc="hidden@example.com", body="A much longer body " + "x" * 300 + "\r\nswimming pool\r\n"),
        dict(cid="s4", flags="", day=12, sent=None, frm="eve@example.com", to="alice@example.com", subj="", body="no date header here\r\n"),
        dict(cid="s5", flags="\\Seen kwone kwtwo", day=13, sent="Sat, 13 Jan 2024 08:00:00 -0800", frm="=?utf-8?q?Fr=C3=A9d?= <fred@example.com>", to="bob@example.org",
             subj="Swim meet", body="SWIM swam swum\r\n", xhdr="X-Custom: Some Value", xhdr2="X-Custom: Other Thing"),
    ],
}
CORPORA["c2"] = [dict(m, flags=f) for m, f in zip(CORPORA["c1"], ["", "\\Seen", "\\Seen \\Flagged \\Answered \\Deleted \\Draft kwone", "kwtwo", "\\Deleted"])]
CORPORA["c3"] = list(reversed([dict(m, cid=m["cid"] + "r") for m in CORPORA["c1"]]))[:4]


def make_msg(m):
    hdr = f"From: {m['frm']}\r\nTo: {m['to']}\r\nSubject: {m['subj']} cid={m['cid']};\r\nMessage-ID: <{m['cid']}@verif>\r\n"
    if m.get("sent"):
        hdr += f"Date: {m['sent']}\r\n"
    if m.get("cc"):
        hdr += f"Cc: {m['cc']}\r\n"
    if m.get("bcc"):
        hdr += f"Bcc: {m['bcc']}\r\n"
    if m.get("xhdr"):
        hdr += m["xhdr"] + "\r\n"
    if m.get("xhdr2"):  # the same field a second time
        hdr += m["xhdr2"] + "\r\n"
    return (hdr + "\r\n" + m["body"]).encode("utf-8")


def template(name):
    def setup(w, s):
        for m in CORPORA[name]:
            d = m["day"]
            templates.must_ok(s, f"APPEND INBOX ({m['flags']}) \"{d:02d}-Jan-2024 12:00:00 +0000\" ".encode() + imap_literal(make_msg(m)))
        if name == "c3":
            templates.must_ok(s, "SELECT INBOX")
            templates.must_ok(s, "STORE 2 +FLAGS.SILENT (\\Deleted)")
            templates.must_ok(s, "EXPUNGE")
            templates.must_ok(s, "CLOSE")

    return templates.build("c14-" + name, setup)


def atoms(facts):
    A = [("all",)]
    for k in RS.SYS:
        if k != "RECENT":
            A += [(k,), ("UN" + k,)]
    A += [("KEYWORD", "kwone"), ("UNKEYWORD", "kwone"), ("KEYWORD", "kwtwo"), ("KEYWORD", "nosuch"), ("UNKEYWORD", "nosuch")]
    # keywords spelled like the MH sequences that hold the system flags: a key agrees with what FETCH FLAGS shows, and that is \\Seen, not Seen
    A += [("KEYWORD", "Seen"), ("UNKEYWORD", "flagged"), ("KEYWORD", "replied")]
    sizes = sorted({f["size"] for f in facts})
    for sz in (sizes[0], sizes[len(sizes) // 2], sizes[-1]):
        for d in (-1, 0, 1):
            A += [("LARGER", sz + d), ("SMALLER", sz + d)]
    for day in (10, 11, 12, 13):  # (two Date headers are a different day in UTC than in their own zone: RFC 3501 disregards time and zone)
        for op in ("BEFORE", "ON", "SINCE", "SENTBEFORE", "SENTON", "SENTSINCE"):
            A.append((op, f"{day}-Jan-2024"))
    A += [("BEFORE", "1-Jan-2020"), ("SINCE", "1-Jan-2030"), ("ON", "29-Feb-2024")]
    A += [("FROM", "alice"), ("FROM", "ALICE"), ("FROM", "example.com"), ("FROM", "nobody"), ("TO", "bob@example.org"), ("TO", "list"), ("CC", "carol"),
          ("CC", "x"), ("BCC", "hidden"), ("SUBJECT", "report"), ("SUBJECT", "REPORT"), ("SUBJECT", "quarterly report"), ("SUBJECT", "zzz"),
          ("HEADER", "X-Custom", "some"), ("HEADER", "X-Custom", "other thing"), ("HEADER", "x-custom", ""), ("HEADER", "Message-ID", "s3"), ("HEADER", "Date", "2024"), ("HEADER", "Nosuch", ""),
          ("HEADER", "X-Empty", ""), ("HEADER", "x-empty", "x"), ("HEADER", "Cc", ""), ("HEADER", "Bcc", ""), ("SUBJECT", ""), ("CC", ""),
          ("BODY", "swim"), ("BODY", "Regards"), ("BODY", "report"), ("BODY", "cid="), ("TEXT", "swim"), ("TEXT", "example.org"), ("TEXT", "zzzz")]
    uids = [f["uid"] for f in facts]
    n = len(facts)
    A += [("UID", [uids[0]]), ("UID", [(uids[1], "*")]), ("UID", [(uids[-1], uids[0])]), ("UID", [999]), ("UID", [(1, uids[1]), uids[-1]]),
          ("SEQ", [1]), ("SEQ", ["*"]), ("SEQ", [(2, n)]), ("SEQ", [(n, 1)]), ("SEQ", [1, n])]
    return A


def programs(facts, tier):
    A = atoms(facts)
    for a in A:
        yield a
        yield ("not", a)
    for (i, a), (j, b) in itertools.product(list(enumerate(A)), repeat=2):
        if i < j or tier != "quick":
            yield ("or", a, b)
            yield ("and", [a, b])
    if tier != "quick":
        sub = A[::5]
        for a, b, c in itertools.product(sub, repeat=3):
            yield ("or", ("not", a), ("and", [b, c]))
            yield ("not", ("or", a, ("not", b)))
            yield ("and", [("or", a, b), ("not", c)])


def get_facts(s, corpus):
    r, resps = s.do("FETCH 1:* (UID FLAGS RFC822.SIZE INTERNALDATE BODY.PEEK[HEADER.FIELDS (MESSAGE-ID)])")
    facts = []
    for x in resps:
        if x.kind == "untagged" and x.typ == "FETCH":
            it = fetch_items(x)
            if "UID" not in it:
                continue
            idate = bytes(it["INTERNALDATE"]).decode()
            mid = bytes(it.get("BODY[HEADER.FIELDS (MESSAGE-ID)]") or b"").decode("latin-1")
            facts.append({"seq": x.num, "uid": int(it["UID"]), "mid": mid.split("<")[1].split("@")[0] if "<" in mid else None, "flags": {str(f) for f in (it["FLAGS"] or [])} - {"\\Recent"},
                          "size": int(it["RFC822.SIZE"]), "idate": RS.pdate(idate.strip().split(" ")[0])})
    by_cid = {m["cid"]: m for m in CORPORA[corpus]}
    import email.utils

    for f in facts:
        m = by_cid[f["mid"]]
        hdrs = {"from": [m["frm"]], "to": [m["to"]], "subject": [f"{m['subj']} cid={m['cid']};"], "message-id": [f"<{m['cid']}@verif>"]}
        if m.get("sent"):
            hdrs["date"] = [m["sent"]]
            f["sent"] = email.utils.parsedate_to_datetime(m["sent"]).date()
        else:
            f["sent"] = None
        if m.get("cc"):
            hdrs["cc"] = [m["cc"]]
        if m.get("bcc"):
            hdrs["bcc"] = [m["bcc"]]
        if m.get("xhdr"):
            k, _, v = m["xhdr"].partition(":")
            hdrs[k.lower()] = [v.strip()]  # (a field may be present with an empty value)
        if m.get("xhdr2"):
            k, _, v = m["xhdr2"].partition(":")
            hdrs.setdefault(k.lower(), []).append(v.strip())
        if m["frm"].startswith("=?"):
            hdrs["from"] = ["Fréd <fred@example.com>", m["frm"]]
        f["headers"] = hdrs
        f["body"] = m["body"]
        f["text"] = make_msg(m).decode("utf-8")
        f["cid"] = m["cid"]
    return facts


def work(unit):
    corpus, tier, lo, hi = unit
    tmpl = template(corpus)
    w = World(tmpl)
    fails = []
    n = 0
    nontriv = set()
    try:
        w.start()
        s = w.connect("A")
        s.do("SELECT INBOX")
        facts = get_facts(s, corpus)
        ctx = {"n": len(facts), "uids": [f["uid"] for f in facts]}
        progs = list(programs(facts, tier))[lo:hi]
        for p in progs:
            text = RS.render(p)
            want = []
            undef = False
            for f in facts:
                v = RS.ev(p, f, ctx)
                if v is None:
                    undef = True
                if v:
                    want.append(f)
            for uidf in (False, True):
                if s.task.done():
                    s = w.connect(f"A{n}")
                    s.do("SELECT INBOX")
                r, resps = s.do(("UID SEARCH " if uidf else "SEARCH ") + text, horizon=10)
                n += 1
                res = None
                for x in resps:
                    if x.kind == "untagged" and x.typ == "SEARCH":
                        res = [int(v) for v in x.data]
                exp = [f["uid"] if uidf else f["seq"] for f in want]
                if 0 < len(exp) < len(facts):
                    nontriv.add((text, uidf))
                if undef:
                    continue
                if r is None or r.typ != "OK" or res is None or sorted(res) != exp or len(res) != len(set(res)):
                    fails.append(Failure(PROP, "C14.result", dict({"keys": sorted({k for k in _ops(p)}), "uid": uidf, "tagged": r.typ if r else None}, **({"mh_name_keyword": True} if _mh_keyword(p) else {})),
                                         {"driver": "c14", "corpus": corpus, "program": text}, exp, res if r is not None and r.typ == "OK" else str(r)))
    finally:
        w.close()
    return fails, n, len(nontriv)


def _ops(p):
    if p[0] in ("and",):
        for x in p[1]:
            yield from _ops(x)
        yield "and"
    elif p[0] == "or":
        yield "or"
        yield from _ops(p[1])
        yield from _ops(p[2])
    elif p[0] == "not":
        yield "not"
        yield from _ops(p[1])
    else:
        yield p[0]


MH_NAMES = {"seen", "unseen", "flagged", "replied", "deleted", "draft", "recent"}


def _mh_keyword(p) -> bool:
    """Does the program hold a KEYWORD / UNKEYWORD key whose argument is the name of an MH sequence that stands for a system flag?"""
    if p[0] == "and":
        return any(_mh_keyword(x) for x in p[1])
    if p[0] == "or":
        return _mh_keyword(p[1]) or _mh_keyword(p[2])
    if p[0] == "not":
        return _mh_keyword(p[1])
    return p[0] in ("KEYWORD", "UNKEYWORD") and str(p[1]).lower() in MH_NAMES


def recent_laws(corpus):
    """NEW = RECENT UNSEEN, OLD = NOT RECENT -- before any FETCH FLAGS clears \\Recent."""
    tmpl = template(corpus)
    w = World(tmpl)
    fails = []
    try:
        w.start()
        s = w.connect("A")
        s.do("SELECT INBOX")

        def q(t):
            r, resps = s.do("SEARCH " + t)
            for x in resps:
                if x.kind == "untagged" and x.typ == "SEARCH":
                    return {int(v) for v in x.data}
            return None

        al, rec, uns, new, old = q("ALL"), q("RECENT"), q("UNSEEN"), q("NEW"), q("OLD")
        if None in (al, rec, uns, new, old) or new != (rec & uns) or old != (al - rec) or q("NOT RECENT") != old or q("OR NEW OLD") != (new | old):
            fails.append(Failure(PROP, "C14.recent-laws", {}, {"driver": "c14-laws", "corpus": corpus}, None,
                                 {"all": sorted(al or []), "recent": sorted(rec or []), "unseen": sorted(uns or []), "new": sorted(new or []), "old": sorted(old or [])}))
    finally:
        w.close()
    return fails


# -----------------------------------------------------------------------------------------------
# histories: the mailbox changes between searches (messages go, messages arrive and take over file numbers, flags move); after
# every step the keys whose facts FETCH shows (flags, size, INTERNALDATE, UID, number) are searched and judged on fresh facts
HIST_OPS = ["del-last", "del-first", "app-mar", "app-jan", "flag-last", "seen-all"]


def hist_programs(facts):
    P = [("ON", "7-Mar-2003"), ("BEFORE", "7-Mar-2003"), ("SINCE", "8-Mar-2003"), ("ON", "13-Jan-2024"), ("SINCE", "12-Jan-2024"), ("BEFORE", "12-Jan-2024"),
         ("not", ("ON", "13-Jan-2024")), ("or", ("ON", "7-Mar-2003"), ("ON", "11-Jan-2024")),
         ("FLAGGED",), ("UNSEEN",), ("SEEN",), ("DELETED",), ("KEYWORD", "kwone"), ("and", [("SEEN",), ("SINCE", "11-Jan-2024")])]
    if facts:
        sz = facts[-1]["size"]
        P += [("LARGER", sz - 1), ("SMALLER", sz + 1), ("and", [("LARGER", sz - 1), ("SMALLER", sz + 1)]), ("UID", [(facts[-1]["uid"], "*")]), ("SEQ", ["*"])]
    return P


def hist_facts(s):
    r, resps = s.do("FETCH 1:* (UID FLAGS RFC822.SIZE INTERNALDATE)")
    facts = []
    for x in resps:
        if x.kind == "untagged" and x.typ == "FETCH":
            it = fetch_items(x)
            if "UID" in it and "INTERNALDATE" in it:
                facts.append({"seq": x.num, "uid": int(it["UID"]), "flags": {str(f) for f in (it["FLAGS"] or [])} - {"\\Recent"}, "size": int(it["RFC822.SIZE"]),
                              "idate": RS.pdate(bytes(it["INTERNALDATE"]).decode().strip().split(" ")[0])})
    return sorted(facts, key=lambda f: f["seq"])


def work_hist(unit):
    corpus, hists = unit
    tmpl = template(corpus)
    fails = []
    n = 0
    outcomes = set()
    for hist in hists:
        w = World(tmpl)
        try:
            w.start()
            s = w.connect("A")
            s.do("SELECT INBOX")
            k = 0
            for step, op in enumerate(("look",) + tuple(hist)):
                if op == "del-last":
                    s.do("STORE * +FLAGS.SILENT (\\Deleted)")
                    s.do("EXPUNGE")
                elif op == "del-first":
                    s.do("STORE 1 +FLAGS.SILENT (\\Deleted)")
                    s.do("EXPUNGE")
                elif op in ("app-mar", "app-jan"):
                    k += 1
                    when = '"07-Mar-2003 10:00:00 +0000"' if op == "app-mar" else '"13-Jan-2024 10:00:00 +0000"'
                    s.do(f"APPEND INBOX (kwone) {when} ".encode() + imap_literal(msgs.make(f"h{k}", body="h" * (40 * k) + "\r\n")))
                    s.do("NOOP")
                elif op == "flag-last":
                    s.do("STORE * +FLAGS.SILENT (\\Flagged)")
                elif op == "seen-all":
                    s.do("STORE 1:* +FLAGS.SILENT (\\Seen)")
                facts = hist_facts(s)
                ctx = {"n": len(facts), "uids": [f["uid"] for f in facts]}
                for p in hist_programs(facts):
                    text = RS.render(p)
                    want = [f for f in facts if RS.ev(p, f, ctx)]
                    for uidf in (False, True):
                        r, resps = s.do(("UID SEARCH " if uidf else "SEARCH ") + text, horizon=10)
                        n += 1
                        got = None
                        for x in resps:
                            if x.kind == "untagged" and x.typ == "SEARCH":
                                got = [int(v) for v in x.data]
                        exp = [f["uid"] if uidf else f["seq"] for f in want]
                        if not facts and r is not None and r.typ == "OK" and not got:
                            continue
                        outcomes.add((text, tuple(exp)))
                        if r is None or r.typ != "OK" or got is None or sorted(got) != exp:
                            fails.append(Failure(PROP, "C14.result-after-history", {"keys": sorted({k_ for k_ in _ops(p)}), "uid": uidf, "last_op": op, "steps": step},
                                                 {"driver": "c14h", "corpus": corpus, "history": list(hist)}, exp, got if r is not None and r.typ == "OK" else str(r),
                                                 [f"history: {list(hist)}", f"program: {text}", f"facts: {[(f['seq'], f['uid'], str(f['idate']), sorted(f['flags']), f['size']) for f in facts]}"]))
                            break
                    else:
                        continue
                    break
        finally:
            w.close()
    return fails, n, len(outcomes)


def hist_units(tier):
    depth = 3 if tier == "quick" else 4
    hs = [h for d in range(1, depth + 1) for h in itertools.product(HIST_OPS, repeat=d)]
    # (shorter histories are prefixes of longer ones and every step is judged: only the longest are run)
    hs = [h for h in hs if len(h) == depth]
    return [("c1", hs[i : i + 12]) for i in range(0, len(hs), 12)], len(hs)


def run(tier, seed, jobs) -> Result:
    res = Result(level="exploration")
    units = []
    total = 0
    for c in CORPORA:
        template(c)
        w = World(template(c))
        w.start()
        s = w.connect("A")
        s.do("SELECT INBOX")
        facts = get_facts(s, c)
        w.close()
        np_ = sum(1 for _ in programs(facts, tier))
        total += np_
        step = 600
        for lo in range(0, np_, step):
            units.append((c, tier, lo, min(np_, lo + step)))
        res.failures.extend(recent_laws(c))
    ev = nt = 0
    for f, n, k in pmap(work, seeded_order(units, seed), jobs):
        res.failures.extend(f)
        ev += n
        nt += k
    hunits, nh = hist_units(tier)
    hev = hnt = 0
    for f, n, k in pmap(work_hist, seeded_order(hunits, seed), jobs):
        res.failures.extend(f)
        hev += n
        hnt += k
    res.coverage = {
        "histories": {"count": nh, "depth": 3 if tier == "quick" else 4, "alphabet": HIST_OPS, "searches": hev, "distinct_program_result_pairs_in_a_unit_summed": hnt,
                      "rule": "every sequence of that length over the alphabet; after every step ~19 programs over the FETCH-visible keys x {SEARCH, UID SEARCH} "
                              "judged by the independent evaluator on facts fetched after the step"},
        "evaluations": ev + hev, "distinct_nontrivial": nt,
        "rule": "every program k, NOT k, OR k k', (k k') over the atom list (thorough: + three 3-level shapes over every 5th atom), x 3 corpora x {SEARCH, UID SEARCH}; "
                "non-trivial = matches some but not all messages",
        "programs": total, "exhaustive": ev == 2 * total and hev > 0,
        "samples": ["OR SUBJECT \"report\" LARGER 300", "NOT (SEEN SENTSINCE 11-Jan-2024)", "UID 2:* BODY \"swim\""],
    }
    res.assumptions = ["5-message corpora (one with a UID gap); needles are plain ASCII substrings; TEXT/BODY are case-insensitive substring matches on the decoded text",
                       "facts come from FETCH (UID FLAGS RFC822.SIZE INTERNALDATE) in the same session; \\Recent only through the laws NEW=RECENT UNSEEN, OLD=NOT RECENT",
                       "date keys compare the date part of INTERNALDATE as displayed / the Date: header's own date"]
    return res


def replay(rec):
    if rec["replay"].get("driver") == "c14h":
        return work_hist((rec["replay"]["corpus"], [tuple(rec["replay"]["history"])]))[0]
    return _replay_prog(rec)


def _replay_prog(rec):
    rp = rec["replay"]
    if rp["driver"] == "c14-laws":
        return recent_laws(rp["corpus"])
    out = []
    tmpl = template(rp["corpus"])
    w = World(tmpl)
    try:
        w.start()
        s = w.connect("A")
        s.do("SELECT INBOX")
        facts = get_facts(s, rp["corpus"])
        for p in programs(facts, "thorough"):
            if RS.render(p) == rp["program"]:
                w.close()
                lo = list(programs(facts, "thorough")).index(p)
                return work((rp["corpus"], "thorough", lo, lo + 1))[0]
    finally:
        w.close()
    return out
