"""
C07 -- everything the server sends is well-formed IMAP.

(1) The independent tokenizer (vf.respparse) runs over every byte the server sends in this
check: complete CRLF-terminated responses, literals by count, quoted strings without raw
CR/LF/unescaped quote or backslash, balanced parentheses.
(2) Engine E over message shapes (as C16): ENVELOPE, BODYSTRUCTURE, BODY, sections, header
field lists, INTERNALDATE, FLAGS for every shape; the decoded ENVELOPE subject, addresses and
message-id must give back the header values.
(3) Mailbox names and keywords with quotes, backslashes, 8-bit, wildcards, brackets through
LIST / LSUB / STATUS / SELECT; error paths whose texts echo hostile client input.
The same tokenizer also runs in every other check (rule C07.syntax in vf.hdriver).
"""

from __future__ import annotations

from . import c16

PROP = "C07"


def run(tier, seed, jobs):
    return c16.run(tier, seed, jobs, prefix="C07.", prop="C07")


def replay(rec):
    return c16.replay(rec, prefix="C07.")
