"""Shared world configurations for the history/schedule explorers."""

from __future__ import annotations

from .. import msgs, templates


def cfg_basic(prop: str, n: int = 2, others=("other",), flags=None, other_msgs=0, mode="new", name=None, loopopts=None):
    """INBOX with n tagged messages (UID i = cid m<i>), plus empty mailboxes `others`."""
    flags = flags or {}
    tname = f"basic-{n}-{'-'.join(others)}-{other_msgs}-" + "-".join(f"{k}{v}" for k, v in sorted(flags.items())).replace("\\", "")

    def setup(w, s):
        for mb in others:
            templates.must_ok(s, f"CREATE {mb}")
        for i in range(1, n + 1):
            templates.append(s, "INBOX", f"m{i}", flags.get(i, ""), n=i)
        for i in range(1, other_msgs + 1):
            templates.append(s, others[0], f"o{i}", "", n=100 + i)

    tmpl = templates.build(tname, setup, mode=mode)
    init = {"INBOX": [(i, f"m{i}", set(flags.get(i, "").split()), msgs.idate_epoch(i)) for i in range(1, n + 1)]}
    for mb in others:
        init[mb] = []
    if other_msgs:
        init[others[0]] = [(i, f"o{i}", set(), msgs.idate_epoch(100 + i)) for i in range(1, other_msgs + 1)]
    init.update({k: [] for k in ("Archive", "Deleted Messages", "Drafts", "Junk", "Sent Messages")} if mode == "run" else {})
    return {"prop": prop, "name": name or tname, "template": tmpl, "init": init, "mode": mode, "driver": "h",
            "loopopts": loopopts or {}}
