"""Shared world configurations for the history/schedule explorers."""

from __future__ import annotations

from .. import msgs, templates


def cfg_basic(prop: str, n: int = 2, others=("other",), flags=None, other_msgs=0, mode="new", name=None, loopopts=None):
    """INBOX with n tagged messages (UID i = cid m<i>), plus empty mailboxes `others`."""
    flags = flags or {}
    tname = f"basic-{n}-{'-'.join(others)}-{other_msgs}-" + "-".join(f"{k}{v}" for k, v in sorted(flags.items())).replace("\\", "")

    def setup(w, s):
        for mb in others:
            templates.must_ok(s, f"CREATE {mb}")
        for i in range(1, n + 1):
            templates.append(s, "INBOX", f"m{i}", flags.get(i, ""), n=i)
        for i in range(1, other_msgs + 1):
            templates.append(s, others[0], f"o{i}", "", n=100 + i)

    tmpl = templates.build(tname, setup, mode=mode)
    init = {"INBOX": [(i, f"m{i}", set(flags.get(i, "").split()), msgs.idate_epoch(i)) for i in range(1, n + 1)]}
    for mb in others:
        init[mb] = []
    if other_msgs:
        init[others[0]] = [(i, f"o{i}", set(), msgs.idate_epoch(100 + i)) for i in range(1, other_msgs + 1)]
    init.update({k: [] for k in ("Archive", "Deleted Messages", "Drafts", "Junk", "Sent Messages")} if mode == "run" else {})
    return {"prop": prop, "name": name or tname, "template": tmpl, "init": init, "mode": mode, "driver": "h",
            "loopopts": loopopts or {}}


def cfg_diverged(prop: str, n: int = 2, extra: int = 2, flags=None, others=("other",), other_msgs=0, name=None, loopopts=None):
    """A non-initial starting state: INBOX whose MH keys and UIDs have diverged.

    m1..m<n+1> are appended (UID i, key i), the last one is expunged, then d1..d<extra> are appended:
    MH hands out key n+1 again while UIDs continue at n+2.  flags: {position (1-based, in the final
    mailbox): flag string}, given to the messages when they are appended."""
    flags = flags or {}
    tname = f"div-{n}-{extra}-{'-'.join(others)}-{other_msgs}-" + "-".join(f"{k}{v}" for k, v in sorted(flags.items())).replace("\\", "")

    def setup(w, s):
        for mb in others:
            templates.must_ok(s, f"CREATE {mb}")
        for i in range(1, n + 2):
            templates.append(s, "INBOX", f"m{i}", flags.get(i, "") if i <= n else "", n=i)
        templates.must_ok(s, "SELECT INBOX")
        templates.must_ok(s, f"UID STORE {n + 1} +FLAGS.SILENT (\\Deleted)")
        templates.must_ok(s, f"UID EXPUNGE {n + 1}")
        templates.must_ok(s, "UNSELECT")
        for j in range(1, extra + 1):
            templates.append(s, "INBOX", f"d{j}", flags.get(n + j, ""), n=20 + j)
        for i in range(1, other_msgs + 1):
            templates.append(s, others[0], f"o{i}", "", n=100 + i)

    tmpl = templates.build(tname, setup)
    inbox = [(i, f"m{i}", set(flags.get(i, "").split()), msgs.idate_epoch(i)) for i in range(1, n + 1)]
    inbox += [(n + 1 + j, f"d{j}", set(flags.get(n + j, "").split()), msgs.idate_epoch(20 + j)) for j in range(1, extra + 1)]
    init = {"INBOX": inbox}
    for mb in others:
        init[mb] = []
    if other_msgs:
        init[others[0]] = [(i, f"o{i}", set(), msgs.idate_epoch(100 + i)) for i in range(1, other_msgs + 1)]
    return {"prop": prop, "name": name or tname, "template": tmpl, "init": init, "mode": "new", "driver": "h",
            "uidnext": {"INBOX": n + extra + 2}, "loopopts": loopopts or {}}
