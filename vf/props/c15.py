"""
C15 -- a message set denotes the same messages in every command.

Engine E (bounded exhaustive input enumeration) on the real server: for every mailbox
size N, UID layout, command form and every sequence set of <= k elements over the
alphabet {0..max+1, *, all ranges in both orders}, run the real command through the real
IMAPClientProxy.run() and compare the set of messages touched / returned with the
reference denotation (vf.refmodel.sets).
"""

from __future__ import annotations

import itertools
import os

from .. import msgs, templates
from ..refmodel import sets as S
from ..respparse import fetch_items
from ..runner import Failure, Result, pmap, seeded_order
from ..world import World

PROP = "C15"
KW = "kwprobe"

NONDESTRUCTIVE = ["FETCH", "UID FETCH", "STORE", "UID STORE", "COPY", "UID COPY",
                  "SEARCH", "SEARCH UID", "UID SEARCH", "UID SEARCH UID"]
DESTRUCTIVE = ["MOVE", "UID MOVE", "UID EXPUNGE"]


def layouts(n: int):
    """(name, number appended, uids expunged, resulting uid list)"""
    yield ("dense", n, [], list(range(1, n + 1)))
    yield ("gap", n + 2, [1, 3], [2] + list(range(4, n + 3)))


def is_uid_form(cmd: str) -> bool:
    return cmd in ("UID FETCH", "UID STORE", "UID COPY", "UID MOVE", "UID EXPUNGE", "SEARCH UID", "UID SEARCH UID")


def plan(tier: str):
    """Yield (n, layout, cmd, k_full, reduced_pairs)"""
    if tier == "quick":
        ns = [1, 2, 3, 4]
        for n in ns:
            for lay in layouts(n):
                for cmd in NONDESTRUCTIVE:
                    yield (n, lay, cmd, 2 if n <= 3 else 1, n > 3)
                for cmd in DESTRUCTIVE:
                    yield (n, lay, cmd, 1, True)
    else:
        for n in [1, 2, 3, 4, 5]:
            for lay in layouts(n):
                for cmd in NONDESTRUCTIVE:
                    yield (n, lay, cmd, (3 if n <= 2 else 2 if n <= 4 else 1), n > 4)
                for cmd in DESTRUCTIVE:
                    yield (n, lay, cmd, (2 if n <= 3 else 1), n > 3)


def set_space(n: int, uids: list[int], cmd: str, k: int, reduced_pairs: bool):
    nmax = uids[-1] if is_uid_form(cmd) else n
    el = S.elements(nmax)
    out = [(e,) for e in el]
    for kk in range(2, k + 1):
        out.extend(itertools.product(el, repeat=kk))
    if reduced_pairs:
        red = [0, 1, nmax, nmax + 1, "*", (1, "*"), ("*", 1), (nmax, 1), (nmax + 1, "*"), (2, nmax)]
        out.extend(itertools.product(red, repeat=2))
    return out


def template_for(n, lay):
    name, napp, exp, _uids = lay
    return templates.simple_inbox(f"c15-{n}-{name}", napp, exp)


# ----------------------------------------------------------------------------------------
class Ctx15:
    def __init__(self, tmpl, n, lay, fresh_deleted=False):
        self.w = World(tmpl)
        self.w.start()
        self.a = self.w.connect("A")
        self.uids = list(lay[3])
        self.n = n
        r, _ = self.a.do("SELECT INBOX")
        assert r and r.typ == "OK", r
        if fresh_deleted:
            r, _ = self.a.do("STORE 1:* +FLAGS.SILENT (\\Deleted)")
            assert r and r.typ == "OK", r
        self.inbox = self.w.folder_path("inbox")
        self.other = self.w.folder_path("other")

    def files(self, d):
        return sorted(int(x) for x in os.listdir(d) if x.isdigit())

    def cids(self, d):
        out = []
        for k in self.files(d):
            with open(os.path.join(d, str(k)), "rb") as f:
                out.append(msgs.cid_of(f.read()))
        return out

    def close(self):
        try:
            self.w.close()
        except Exception:
            pass


def _uids_from_fetch(resps):
    """[(seq, uid)] from untagged FETCH responses."""
    out = []
    for r in resps:
        if r.kind == "untagged" and r.typ == "FETCH":
            it = fetch_items(r)
            out.append((r.num, int(it["UID"]) if "UID" in it else None))
    return out


def run_case(cx: Ctx15, cmd: str, elems) -> tuple[str, object, object, list]:
    """Returns (rule or '', expected, observed, transcript)."""
    a = cx.a
    uids = cx.uids
    n = len(uids)
    sstr = S.set_str(elems)
    uidf = is_uid_form(cmd)
    # UID forms: 0 is not an nz-number; the property says nothing about it, so both a
    # refusal and the lenient reading "0 is a UID that does not exist" are accepted.
    may_refuse = uidf and S.has_zero(elems)
    must_refuse = False
    if uidf:
        den_u = S.denote_uid(elems, uids, lenient_zero=True)
    else:
        try:
            den_u = {uids[i - 1] for i in S.denote_seq(elems, n)}
        except S.Invalid:
            den_u = set()
            must_refuse = True
    tr = []
    pre_in = cx.cids(cx.inbox)
    pre_ot = cx.cids(cx.other)
    cid_of_uid = {u: f"m{u}" for u in uids}
    uid_of_cid = {v: k for k, v in cid_of_uid.items()}

    def go(c):
        t0 = a.world.loop.time()
        r, resps = a.do(c)
        tr.append(f"C: {c}")
        for x in resps:
            tr.append("S: " + x.raw[:200].decode("latin-1").rstrip())
        if a.pending_garbage():
            tr.append("S(incomplete): " + a.pending_garbage()[:200].decode("latin-1"))
        tr.append(f"   (virtual {a.world.loop.time() - t0:.2f}s)")
        return r, resps

    def kw_uids():
        r, resps = a.do(f"UID SEARCH KEYWORD {KW}")
        for x in resps:
            if x.kind == "untagged" and x.typ == "SEARCH":
                return {int(v) for v in x.data}
        return set()

    exp = {"denotes_uids": sorted(den_u), "must_be_BAD": must_refuse}
    obs: dict = {}
    effect: set | None = None  # uids the command touched / returned
    extra_rule = ""
    search_form = False

    if cmd in ("FETCH", "UID FETCH"):
        r, resps = go(f"{cmd} {sstr} (UID)")
        got = _uids_from_fetch(resps)
        obs["fetched"] = got
        for seq, u in got:
            if not (1 <= seq <= n) or uids[seq - 1] != u:
                extra_rule = "C15.fetch-binding"
        effect = {u for _, u in got}
        if len(got) != len(effect):
            extra_rule = extra_rule or "C15.duplicate-results"
    elif cmd in ("STORE", "UID STORE"):
        r, resps = go(f"{cmd} {sstr} +FLAGS ({KW})")
        effect = kw_uids()
        rep = {uids[x.num - 1] for x in resps if x.kind == "untagged" and x.typ == "FETCH" and 1 <= x.num <= n}
        obs["flagged"] = sorted(effect)
        obs["reported"] = sorted(rep)
        if effect:
            a.do(f"UID STORE 1:{uids[-1]} -FLAGS.SILENT ({KW})")
            if kw_uids():
                a.do(f"STORE 1:* -FLAGS.SILENT ({KW})")
        if r is not None and r.typ == "OK" and rep != effect:
            extra_rule = "C15.store-report-mismatch"
    elif cmd in ("COPY", "UID COPY", "MOVE", "UID MOVE"):
        r, resps = go(f"{cmd} {sstr} other")
        post_ot = cx.cids(cx.other)
        post_in = cx.cids(cx.inbox)
        added = post_ot[len(pre_ot):]
        removed = [c for c in pre_in if c not in post_in]
        obs["added_to_other"] = added
        obs["removed_from_inbox"] = removed
        if post_ot[: len(pre_ot)] != pre_ot:
            extra_rule = "C15.destination-disturbed"
        effect = {uid_of_cid.get(c, -1) for c in added}
        if added != [cid_of_uid[u] for u in sorted(effect) if u in cid_of_uid]:
            extra_rule = extra_rule or "C15.copy-order-or-duplicates"
        if cmd.endswith("MOVE"):
            if sorted(removed) != sorted(added):
                extra_rule = extra_rule or "C15.move-removed-differs-from-copied"
        elif removed:
            extra_rule = extra_rule or "C15.copy-removed-source"
        for c in removed:
            cx.uids.remove(uid_of_cid[c])
        # an empty UID denotation may be answered OK or NO alike
        if uidf and not den_u:
            may_refuse = True
    elif cmd in ("SEARCH", "SEARCH UID", "UID SEARCH", "UID SEARCH UID"):
        search_form = True
        uid_result = cmd.startswith("UID ")
        key = ("UID " if cmd.endswith(" UID") else "") + sstr
        r, resps = go(("UID SEARCH " if uid_result else "SEARCH ") + key)
        res = None
        for x in resps:
            if x.kind == "untagged" and x.typ == "SEARCH":
                res = [int(v) for v in x.data]
        obs["result"] = res
        if res is not None:
            if uid_result:
                effect = set(res)
                if effect - set(uids):
                    extra_rule = "C15.search-returned-nonexistent"
            else:
                if any(not (1 <= i <= n) for i in res):
                    extra_rule = "C15.search-returned-nonexistent"
                effect = {uids[i - 1] for i in res if 1 <= i <= n}
            if len(res) != len(set(res)):
                extra_rule = extra_rule or "C15.duplicate-results"
        else:
            effect = set()
    elif cmd == "UID EXPUNGE":
        r, resps = go(f"UID EXPUNGE {sstr}")
        post_in = cx.cids(cx.inbox)
        removed = [c for c in pre_in if c not in post_in]
        obs["removed"] = removed
        effect = {uid_of_cid[c] for c in removed}
        for c in removed:
            cx.uids.remove(uid_of_cid[c])
    else:
        raise AssertionError(cmd)

    obs["tagged"] = r.typ if r else None
    obs["effect_uids"] = sorted(effect)
    if r is None:
        return "C15.no-reply", exp, obs, tr
    if extra_rule:
        return extra_rule, exp, obs, tr
    if r.typ in ("BAD", "NO"):
        if effect:
            return "C15.rejected-but-applied", exp, obs, tr
        if must_refuse:
            if r.typ != "BAD" and not search_form:
                return "C15.out-of-range-not-BAD", exp, obs, tr
            return "", exp, obs, tr
        if may_refuse:
            return "", exp, obs, tr
        return "C15.valid-set-refused", exp, obs, tr
    # OK
    if must_refuse:
        if search_form:
            # "a SEARCH key may instead simply match nothing": the out-of-range part
            lim = {uids[i - 1] for i in _loose_seq(elems, n)}
            exp["at_most"] = sorted(lim)
            if effect - lim:
                return "C15.denotation", exp, obs, tr
            return "", exp, obs, tr
        return "C15.out-of-range-not-BAD", exp, obs, tr
    if effect != den_u:
        return "C15.denotation", exp, obs, tr
    return "", exp, obs, tr


def _valid_uid_elem(e):
    if isinstance(e, tuple):
        return all(x == "*" or x > 0 for x in e)
    return e == "*" or e > 0


def _loose_seq(elems, n):
    """Positions in 1..n named by the in-range part of a set (ranges clipped)."""
    out = set()

    def v(x):
        return n if x == "*" else x

    for e in elems:
        if isinstance(e, tuple):
            a, b = v(e[0]), v(e[1])
            lo, hi = min(a, b), max(a, b)
            out.update(i for i in range(lo, hi + 1) if 1 <= i <= n)
        elif 1 <= v(e) <= n:
            out.add(v(e))
    return out


def shape(elems, n, uids, uidf):
    """Coarse class of a set, for failure signatures."""
    mx = uids[-1] if uidf else n
    cls = set()
    for e in elems:
        parts = e if isinstance(e, tuple) else (e,)
        for x in parts:
            if x == "*":
                cls.add("star")
            elif x == 0:
                cls.add("zero")
            elif x > mx:
                cls.add("beyond")
            elif uidf and x not in uids:
                cls.add("missing-uid")
        if isinstance(e, tuple):
            a, b = (mx if x == "*" else x for x in e)
            cls.add("range-desc" if a > b else "range")
    return "+".join(sorted(cls)) or "plain"


def work(unit):
    tmpl, n, lay, cmd, sets = unit
    destructive = cmd in DESTRUCTIVE
    fails = []
    outcomes = set()
    cx = None
    evals = 0
    nontrivial = 0
    try:
        for elems in sets:
            if cx is None or destructive:
                if cx is not None:
                    cx.close()
                cx = Ctx15(tmpl, n, lay, fresh_deleted=(cmd == "UID EXPUNGE"))
            rule, exp, obs, tr = run_case(cx, cmd, elems)
            evals += 1
            if exp["denotes_uids"] or exp["must_be_BAD"]:
                nontrivial += 1
            outcomes.add((obs.get("tagged"), len(exp["denotes_uids"]), exp["must_be_BAD"]))
            if rule:
                fails.append(
                    Failure(
                        PROP, rule,
                        {"cmd": cmd, "shape": shape(elems, n, lay[3], is_uid_form(cmd)),
                         "tagged": obs.get("tagged")},
                        {"driver": "c15", "n": n, "layout": lay[0], "cmd": cmd, "set": S.set_str(elems),
                         "elems": [list(e) if isinstance(e, tuple) else e for e in elems]},
                        exp, obs, tr,
                    )
                )
                # state may be off after a failure: start from a fresh world
                cx.close()
                cx = None
    finally:
        if cx is not None:
            cx.close()
    return fails, evals, nontrivial, outcomes


def run(tier: str, seed: int, jobs: int) -> Result:
    units = []
    total = 0
    space_desc = []
    for n, lay, cmd, k, red in plan(tier):
        tmpl = template_for(n, lay)
        sets = set_space(n, lay[3], cmd, k, red)
        total += len(sets)
        space_desc.append((n, lay[0], cmd, k, len(sets)))
        chunk = 400 if cmd not in DESTRUCTIVE else 60
        for i in range(0, len(sets), chunk):
            units.append((tmpl, n, lay, cmd, sets[i : i + chunk]))
    units = seeded_order(units, seed)
    fails, evals, nontriv = [], 0, 0
    outcomes = set()
    for f, e, nt, oc in pmap(work, units, jobs):
        fails.extend(f)
        evals += e
        nontriv += nt
        outcomes |= {(c,) + o for c, o in [("x", o) for o in oc]}
    res = Result(level="exploration")
    res.failures = fails
    res.coverage = {
        "evaluations": evals,
        "distinct_nontrivial": nontriv,
        "space": total,
        "exhaustive": evals == total,
        "distinct_outcomes": len(outcomes),
        "rule": "every sequence set of <=k elements over {0..max+1,*} and all ranges in both orders, per (N, UID layout, "
                "command form); k per cell in 'cells'; non-trivial = denotes >=1 message or names a non-existent position "
                "(each (cell,set) is distinct by construction)",
        "cells": [f"N={n} {l} {c} k<={k}: {m} sets" for n, l, c, k, m in space_desc][:200],
        "samples": [
            {"n": 3, "layout": "gap uids [2,4,5]", "cmd": "UID FETCH", "set": "5:*,2"},
            {"n": 2, "layout": "dense", "cmd": "STORE", "set": "*:1,3"},
            {"n": 4, "layout": "dense", "cmd": "SEARCH", "set": "4:2"},
        ],
    }
    res.assumptions = [
        "mailbox sizes N<=%d; set length bound per cell as listed; UID layouts dense and one gap layout" % (4 if tier == "quick" else 5),
        "default schedule (single session, commands strictly sequential)",
        "COPY/MOVE/EXPUNGE effects observed through the MH folder on disk (file names and content ids)",
    ]
    return res


def replay(rec) -> list[Failure]:
    rp = rec["replay"]
    n = rp["n"]
    lay = [l for l in layouts(n) if l[0] == rp["layout"]][0]
    tmpl = template_for(n, lay)
    elems = tuple(tuple(e) if isinstance(e, list) else e for e in rp["elems"])
    f, _, _, _ = work((tmpl, n, lay, rp["cmd"], [elems]))
    return f
