"""
C04 -- message flags follow IMAP STORE/FETCH semantics exactly.

Engine H, shallow and wide: every history of length <= k over a large alphabet of STORE
(+/-/replace x SILENT x UID x flag lists incl. keywords that collide with MH sequence
names), flag-reading and \\Seen-setting FETCHes, APPEND with flags, COPY, from two sessions
selected on the same mailbox, for several initial flag assignments.  Oracles: every FLAGS
item a session is sent (last value per message), the flags after synchronisation, the final
FETCH FLAGS, SEARCH by flag, and the Seen/unseen complement.
"""

from __future__ import annotations

PROP = "C04"
RULES = ("C04.",)

# (system flag names are case-insensitive; `a:b` and an 8-bit atom are keywords an MH folder cannot hold: refused without effect, or stored)
FLAGLISTS_Q = ["\\Seen", "\\Deleted", "\\Answered \\Flagged", "$Fwd", "\\Seen $Fwd", "\\seen \\DELETED", "a:b", "k\xe9"]
FLAGLISTS_T = FLAGLISTS_Q + ["\\Draft", "", "Seen", "unseen", "Recent", "replied", "Deleted"]
INITS = {"plain": {}, "seen1": {1: "\\Seen"}, "mixed": {1: "\\Seen \\Flagged kw", 2: "\\Answered"},
         # keywords that are pieces of system flag names, or differ from one only in case or the backslash
         "oddkw": {1: "e nt Re kw", 2: "\\Flagged ece S"}}


def cfg(init="plain"):
    from .common import cfg_basic

    c = cfg_basic(PROP, 2, others=("other",), flags=INITS[init], name=f"c04-{init}")
    c["prelude"] = [{"s": "A", "op": "select", "m": "INBOX"}, {"s": "B", "op": "select", "m": "INBOX"}]
    return c


def alphabet(tier, wide=None):
    wide = (tier != "quick") if wide is None else wide
    A, B = "A", "B"
    ev = []
    lists = FLAGLISTS_T if wide else FLAGLISTS_Q
    for fl in lists:
        for mode in "+-=":
            for st in ("1", "1:2") if not wide else ("1", "2", "1:2"):
                ev.append({"s": A, "op": "store", "set": st, "mode": mode, "flags": fl})
    for fl in lists[:3] if not wide else lists:
        ev.append({"s": A, "op": "store", "set": "1", "mode": "+", "flags": fl, "silent": True})
        ev.append({"s": A, "op": "store", "set": "2", "mode": "=", "flags": fl, "uid": True})
        ev.append({"s": B, "op": "store", "set": "1", "mode": "-", "flags": fl})
    if wide:
        for fl in lists:
            ev.append({"s": A, "op": "store", "set": "1:*", "mode": "-", "flags": fl, "uid": True, "silent": True})
    ev += [
        {"s": A, "op": "store", "set": "1", "mode": "+", "flags": "\\Recent"},
        {"s": A, "op": "store", "set": "1", "mode": "-", "flags": "\\Recent"},
        {"s": A, "op": "fetch", "set": "1", "items": "(FLAGS)"},
        {"s": A, "op": "fetch", "set": "2", "items": "(FLAGS)"},  # \\Recent stays on the lower-numbered message only
        {"s": A, "op": "fetch", "set": "1:*", "items": "(FLAGS)", "uid": True},
        {"s": A, "op": "fetch", "set": "1", "items": "BODY[]"},
        # several body items in one FETCH: any non-PEEK item sets \\Seen, wherever it stands
        {"s": A, "op": "fetch", "set": "1", "items": "(BODY[TEXT] BODY.PEEK[HEADER])"},
        {"s": A, "op": "fetch", "set": "2", "items": "(RFC822.TEXT RFC822.HEADER)"},
        {"s": A, "op": "fetch", "set": "2", "items": "(BODY.PEEK[HEADER] BODY[1] FLAGS)"},
        {"s": A, "op": "fetch", "set": "2", "items": "BODY.PEEK[]"},
        {"s": A, "op": "fetch", "set": "2", "items": "RFC822"},
        {"s": B, "op": "fetch", "set": "1:2", "items": "(FLAGS)"},
        {"s": B, "op": "fetch", "set": "2", "items": "BODY[TEXT]"},
        {"s": B, "op": "noop"},
        {"s": B, "op": "examine", "m": "INBOX"},
        {"s": A, "op": "append", "m": "INBOX", "flags": "\\Seen $Fwd"},
        {"s": A, "op": "append", "m": "INBOX", "flags": ""},
        {"s": A, "op": "append", "m": "INBOX", "flags": "\\seen \\FLAGGED"},
        {"s": A, "op": "append", "m": "INBOX", "flags": "kw a:b"},
        {"s": A, "op": "copy", "set": "1", "dst": "other"},
        {"s": A, "op": "copy", "set": "1:*", "dst": "INBOX"},
        {"s": A, "op": "search", "key": "SEEN"},
        {"s": A, "op": "search", "key": "UNSEEN", "uid": True},
        {"s": A, "op": "search", "key": "KEYWORD $Fwd"},
        {"s": B, "op": "search", "key": "DELETED"},
    ]
    return ev


def alphabet_keywords(tier):
    """Keywords are opaque atoms: whatever their spelling they travel with the message through APPEND, COPY, MOVE and STORE."""
    A, B = "A", "B"
    ev = [
        {"s": A, "op": "append", "m": "INBOX", "flags": "e"},
        {"s": A, "op": "append", "m": "INBOX", "flags": "\\Seen Re nt"},
        {"s": A, "op": "append", "m": "other", "flags": "c ent \\Answered"},
        {"s": A, "op": "copy", "set": "1", "dst": "other"},
        {"s": A, "op": "copy", "set": "1:*", "dst": "INBOX"},
        {"s": A, "op": "move", "set": "1", "dst": "other"},
        {"s": A, "op": "store", "set": "1", "mode": "+", "flags": "R"},
        {"s": A, "op": "store", "set": "1:2", "mode": "-", "flags": "e"},
        {"s": A, "op": "store", "set": "2", "mode": "=", "flags": "nt Flagged"},
        {"s": A, "op": "fetch", "set": "1:*", "items": "(FLAGS)"},
        {"s": B, "op": "noop"},
        {"s": A, "op": "search", "key": "KEYWORD e"},
        {"s": A, "op": "search", "key": "UNKEYWORD nt"},
        {"s": B, "op": "select", "m": "other"},
    ]
    return ev


def alphabet_toggle(tier):
    """Narrow and deep: one session toggles flags back and forth while the other stays quiet, polls or looks."""
    A, B = "A", "B"
    return [
        {"s": A, "op": "store", "set": "1", "mode": "+", "flags": "\\Flagged"},
        {"s": A, "op": "store", "set": "1", "mode": "-", "flags": "\\Flagged"},
        {"s": A, "op": "store", "set": "1:2", "mode": "=", "flags": "\\Seen"},
        {"s": A, "op": "store", "set": "1", "mode": "-", "flags": "\\Seen", "silent": True},
        {"s": A, "op": "fetch", "set": "1", "items": "BODY[]"},
        {"s": A, "op": "store", "set": "2", "mode": "+", "flags": "$Fwd", "uid": True},
        {"s": A, "op": "store", "set": "2", "mode": "-", "flags": "$Fwd"},
        {"s": B, "op": "noop"},
        {"s": B, "op": "fetch", "set": "1:2", "items": "(FLAGS)"},
        {"s": B, "op": "store", "set": "1", "mode": "+", "flags": "\\Flagged"},
        {"s": B, "op": "idle"},
        {"s": B, "op": "done"},
    ]


def cfg4():
    """INBOX(4): flag changes before and after an EXPUNGE that renumbers the messages they were reported for."""
    from .common import cfg_basic

    c = cfg_basic(PROP, 4, others=("other",), name="c04-four")
    c["prelude"] = [{"s": "A", "op": "select", "m": "INBOX"}, {"s": "B", "op": "select", "m": "INBOX"}]
    return c


def alphabet_renumber(tier):
    """One session changes flags and expunges (renumbering what follows) while the other stays quiet, then synchronises."""
    A, B = "A", "B"
    return [
        {"s": A, "op": "store", "set": "3", "mode": "+", "flags": "\\Flagged"},
        {"s": A, "op": "store", "set": "3", "mode": "+", "flags": "\\Answered"},
        {"s": A, "op": "store", "set": "2", "mode": "+", "flags": "$Fwd"},
        {"s": A, "op": "store", "set": "*", "mode": "+", "flags": "\\Seen"},
        {"s": A, "op": "del", "set": "2"},
        {"s": A, "op": "del", "set": "1"},
        {"s": B, "op": "noop"},
        {"s": B, "op": "fetch", "set": "1:*", "items": "(FLAGS)", "uid": True},
        {"s": B, "op": "idle"},
        {"s": B, "op": "done"},
    ]


def run(tier, seed, jobs):
    from .hcommon import run_h

    plans = []
    if tier == "quick":
        for init in ("plain", "mixed"):
            plans.append({"cfg_ref": ("vf.props.c04", "cfg", [init]), "alphabet": alphabet(tier), "depth": 2, "label": f"init={init}"})
    else:
        for init in INITS:
            plans.append({"cfg_ref": ("vf.props.c04", "cfg", [init]), "alphabet": alphabet(tier), "depth": 2, "label": f"init={init} wide"})
        plans.append({"cfg_ref": ("vf.props.c04", "cfg", ["mixed"]), "alphabet": alphabet("quick"), "depth": 3, "label": "init=mixed narrow"})
    plans.append({"cfg_ref": ("vf.props.c04", "cfg", ["plain"]), "alphabet": alphabet_toggle(tier), "depth": 4 if tier == "quick" else 5,
                  "label": "init=plain, toggling alphabet (deep, narrow)"})
    plans.append({"cfg_ref": ("vf.props.c04", "cfg4", []), "alphabet": alphabet_renumber(tier), "depth": 4 if tier == "quick" else 5,
                  "label": "INBOX(4): flag changes around an EXPUNGE that renumbers, the other session quiet until it synchronises"})
    plans.append({"cfg_ref": ("vf.props.c04", "cfg", ["oddkw"]), "alphabet": alphabet_keywords(tier), "depth": 2 if tier == "quick" else 4,
                  "label": "init=oddkw: keywords that are pieces of system flag names through APPEND / COPY / MOVE / STORE"})
    # a flag taken off after the mailbox was loaded from the database stays off when it is loaded again (rows of emptied sequences)
    A = "A"
    reload_ab = [{"s": "env", "op": "restart"}, {"s": A, "op": "store", "set": "1", "mode": "-", "flags": "\\Flagged"},
                 {"s": A, "op": "store", "set": "1", "mode": "-", "flags": "kw"}, {"s": A, "op": "store", "set": "2", "mode": "=", "flags": ""},
                 {"s": A, "op": "store", "set": "2", "mode": "+", "flags": "\\Flagged"}, {"s": A, "op": "fetch", "set": "1:*", "items": "(FLAGS)", "uid": True}]
    plans.append({"cfg_ref": ("vf.props.c04", "cfg", ["mixed"]), "alphabet": reload_ab, "depth": 4 if tier == "quick" else 5,
                  "label": "init=mixed: flags taken off between two restarts (the mailbox is loaded from the database, changed, loaded again)"})
    res = run_h(PROP, RULES, plans, ("C04",), jobs, seed,
                 ["two read-write sessions on INBOX(2) (B may switch to EXAMINE); flag lists as in the alphabet "
                  "(system flags, $Fwd, keywords equal to MH sequence names in the thorough tier)",
                  "\\Recent and the derived `unseen` marker are not compared with a model value, except: `unseen` present iff \\Seen absent; "
                  "\\Recent never comes back for a message within one session's stream or in .mh_sequences, and no STORE changes the folder's Recent sequence",
                  "a session's flag knowledge is the last FLAGS value it was sent per message; checked when each command ends and at sync points"],
                 time_budget=150 if tier == "quick" else 1500)
    # schedule part: flag changes of one session while the other enters / leaves IDLE or reads slowly -- after its next
    # synchronisation point a session's last FLAGS value per message is the current one (scenarios shared with C10)
    from ..explore import sched
    from . import c10

    by = {sc["name"]: sc for sc in c10.scenarios(tier)}
    per = []
    for name in ("store,store|idle parked in its flush,done", "store,store|idle,done slow reader", "store|store", "store|fetchbody"):
        sc = by[name]
        r = sched.explore(sc, 2, jobs, seed, max_exec=20000 if tier == "quick" else 80000)
        res.failures.extend(f for f in r["failures"] if f.rule.startswith("C04."))
        res.coverage["states"] += r["executions"]
        res.coverage["transitions"] += r["steps"]
        res.coverage["traces_validated_against_impl"] += r["executions"]
        per.append({"scenario": name, "executions": r["executions"], "bound": r["bound_completed"], "outcomes": r["distinct_outcomes"], "cap": r["cap"]})
    res.coverage["schedule_part"] = per
    res.assumptions.append("schedule part: four two-session scenarios (flag changes against IDLE entry/exit of a slow reader, STORE | STORE, STORE | FETCH BODY[]) under every "
                           "schedule with <=2 deviations: after its NOOP each session's last FLAGS value per message equals the final flags")
    return res


def replay(rec):
    rp = rec["replay"]
    if rp.get("driver") == "s":
        from ..explore import sched

        _p, _n, _sig, fails, _st = sched.run_one((rp["scenario"], rp["choices"]))
        return [f for f in fails if f.rule.startswith("C04.")]
    from .hcommon import replay_h

    return replay_h("C04.", rec)
