"""
C03 -- a UID always names the same message.

Engine H: histories mixing expunge of arbitrary subsets, appends, copies, deliveries, pack
opportunities, rename and restart on an INBOX whose every position is probed
(`FETCH n (UID BODY.PEEK[HEADER.FIELDS (SUBJECT)])`, UID and non-UID forms).  Oracles:
per (mailbox, UIDVALIDITY, UID) the content id and INTERNALDATE first seen never change;
sequence number <-> UID <-> content is a bijection at every command boundary.
"""

from __future__ import annotations

PROP = "C03"
RULES = ("C03.", "C02.uid-reused")
SUBJ = "(UID BODY.PEEK[HEADER.FIELDS (SUBJECT)])"


def cfg(n=3):
    from .common import cfg_basic

    c = cfg_basic(PROP, n, others=("a",), name=f"c03-{n}")
    c["pack_limit"] = 2
    c["pack_ratio"] = 0.8
    c["prelude"] = [{"s": "A", "op": "select", "m": "INBOX"}, {"s": "B", "op": "select", "m": "INBOX"}]
    return c


def cfg_tree():
    """a(2) and its child a/b(2): the same MH keys name different messages in parent and child."""
    from .. import msgs, templates

    def setup(w, s):
        templates.must_ok(s, "CREATE a")
        templates.must_ok(s, "CREATE a/b")
        templates.append(s, "INBOX", "m1", "", n=1)
        for i in (1, 2):
            templates.append(s, "a", f"p{i}", "", n=10 + i)
            templates.append(s, "a/b", f"k{i}", "", n=20 + i)

    tmpl = templates.build("c03-tree", setup)
    init = {"INBOX": [(1, "m1", set(), msgs.idate_epoch(1))],
            "a": [(i, f"p{i}", set(), msgs.idate_epoch(10 + i)) for i in (1, 2)],
            "a/b": [(i, f"k{i}", set(), msgs.idate_epoch(20 + i)) for i in (1, 2)]}
    return {"prop": PROP, "name": "c03-tree", "template": tmpl, "init": init, "mode": "new", "driver": "h", "loopopts": {},
            "prelude": [{"s": "B", "op": "select", "m": "a/b"}]}


def alphabet_tree(tier):
    A, B = "A", "B"
    return [
        {"s": A, "op": "rename", "m": "a", "to": "c"}, {"s": A, "op": "rename", "m": "c", "to": "a"},
        {"s": A, "op": "rename", "m": "a/b", "to": "a/d"}, {"s": A, "op": "rename", "m": "a", "to": "x/y"},
        {"s": B, "op": "select", "m": "a/b"}, {"s": B, "op": "select", "m": "c/b"}, {"s": B, "op": "select", "m": "c"}, {"s": B, "op": "select", "m": "a"},
        {"s": B, "op": "fetch", "set": "1:*", "items": SUBJ, "uid": True}, {"s": B, "op": "fetch", "set": "2", "items": SUBJ},
        {"s": B, "op": "del", "set": "1"}, {"s": A, "op": "append", "m": "a/b"}, {"s": A, "op": "append", "m": "c/b"},
        {"s": "env", "op": "poll", "dt": 21.0}, {"s": "env", "op": "restart"},
    ]


def alphabet(tier):
    A, B = "A", "B"
    ev = [
        {"s": A, "op": "del", "set": "1"},
        {"s": A, "op": "del", "set": "2"},
        {"s": A, "op": "del", "set": "*"},
        {"s": A, "op": "del", "set": "1:2"},
        {"s": A, "op": "del", "set": "2:*"},
        {"s": A, "op": "del", "set": "1,*"},
        {"s": A, "op": "append", "m": "INBOX"},
        {"s": A, "op": "copy", "set": "2", "dst": "INBOX"},
        {"s": A, "op": "copy", "set": "1:*", "dst": "a"},
        {"s": A, "op": "move", "set": "2", "dst": "a"},
        {"s": "env", "op": "deliver", "m": "INBOX"},
        {"s": "env", "op": "poll", "dt": 21.0},
        # a delivery within the second of the folder's mtime, then idle time (the pack opportunity), then the mtime advances
        {"s": "env", "op": "latent", "m": "INBOX", "then": {"s": "env", "op": "poll", "dt": 21.0}},
        {"s": "env", "op": "restart"},
        {"s": A, "op": "rename", "m": "a", "to": "c"},
        # every message leaves INBOX at once, without an EXPUNGE by anybody; the numbering of files starts again while UIDs go on
        {"s": A, "op": "rename", "m": "INBOX", "to": "old"},
        {"s": A, "op": "select", "m": "INBOX"},
        {"s": B, "op": "select", "m": "INBOX"},
        {"s": B, "op": "noop"},
        {"s": B, "op": "fetch", "set": "1", "items": SUBJ},
        {"s": B, "op": "fetch", "set": "2", "items": SUBJ},
        {"s": B, "op": "fetch", "set": "*", "items": SUBJ},
        {"s": B, "op": "fetch", "set": "1:*", "items": SUBJ, "uid": True},
        {"s": B, "op": "fetch", "set": "2", "items": SUBJ, "uid": True},
    ]
    return ev


def run(tier, seed, jobs):
    from .hcommon import run_h

    plans = [{"cfg_ref": ("vf.props.c03", "cfg", [3]), "alphabet": alphabet(tier), "depth": 3 if tier == "quick" else 4, "label": "INBOX(3)"}]
    if tier != "quick":
        plans.append({"cfg_ref": ("vf.props.c03", "cfg", [4]), "alphabet": alphabet(tier), "depth": 3, "label": "INBOX(4)"})
    core = [{"s": "A", "op": "del", "set": "1"}, {"s": "A", "op": "del", "set": "*"}, {"s": "A", "op": "append", "m": "INBOX"},
            {"s": "env", "op": "deliver", "m": "INBOX"}, {"s": "env", "op": "poll", "dt": 21.0},
            {"s": "env", "op": "latent", "m": "INBOX", "then": {"s": "env", "op": "poll", "dt": 21.0}},
            {"s": "B", "op": "fetch", "set": "1:*", "items": SUBJ, "uid": True}]
    plans.append({"cfg_ref": ("vf.props.c03", "cfg", [3]), "alphabet": core, "depth": 5 if tier == "quick" else 6, "label": "INBOX(3), core alphabet, deep"})
    plans.append({"cfg_ref": ("vf.props.c03", "cfg_tree", []), "alphabet": alphabet_tree(tier), "depth": 3 if tier == "quick" else 4,
                  "label": "a(2) with child a/b(2): RENAME of parent / child while the child is selected, fetched, appended to"})
    # the folder is packed (files renumbered) and the mailbox is then loaded from the database with nothing arriving in between
    packload = [{"s": "A", "op": "del", "set": "1"}, {"s": "A", "op": "del", "set": "2"}, {"s": "env", "op": "poll", "dt": 21.0}, {"s": "env", "op": "restart"},
                {"s": "B", "op": "fetch", "set": "1:*", "items": SUBJ, "uid": True}, {"s": "A", "op": "append", "m": "INBOX"}]
    plans.append({"cfg_ref": ("vf.props.c03", "cfg", [4]), "alphabet": packload, "depth": 4 if tier == "quick" else 6,
                  "label": "INBOX(4): expunge, pack, restart, look (narrow alphabet, deep enough for pack-then-restart with no arrival between)"})
    res = run_h(PROP, RULES, plans, ("C03",), jobs, seed,
                ["sessions A (mutator) and B (prober) both selected on INBOX(3 or 4); pack threshold lowered to 2 messages",
                 "expunge subsets are the 6 listed set shapes per state (composed over the history they reach every subset)",
                 "INTERNALDATE compared exactly for messages whose date was supplied (APPEND date-time / delivery agent utime)",
                 "schedule part: UID FETCH / FETCH of one session overlapping EXPUNGE / MOVE / CLOSE of another (scenarios shared with C10), every schedule with "
                 "<=2 (thorough 3) deviations: what a fetch returns for a UID is that UID's message in some sequential order of the two commands"],
                time_budget=170 if tier == "quick" else 900)
    from ..explore import sched

    per = []
    for sc in s_scenarios(tier):
        from .c10 import thorough_bound

        r = sched.explore(sc, 2 if tier == "quick" else thorough_bound(sc["name"]), jobs, seed, max_exec=20000 if tier == "quick" else 120000)
        for f in r["failures"]:
            if f.rule.startswith("C03.") or f.rule in ("C10.not-linearizable", "C01.fetch-binding"):
                f.rule = f.rule.replace("C10.", "C03.").replace("C01.", "C03.")
                res.failures.append(f)
        res.coverage["states"] += r["executions"]
        res.coverage["transitions"] += r["steps"]
        res.coverage["traces_validated_against_impl"] += r["executions"]
        per.append({"scenario": sc["name"], "executions": r["executions"], "bound": r["bound_completed"], "outcomes": r["distinct_outcomes"], "cap": r["cap"]})
        if r["cap"]:
            res.coverage["exhaustive"] = False
    res.coverage["schedule_part"] = per
    return res


def s_scenarios(tier):
    from . import c10

    want = ["expunge|uidfetch", "expunge|fetch3", "close|fetch2", "expunge|uidfetch slow reader", "expunge|fetchall slow reader"]
    by = {sc["name"]: sc for sc in c10.scenarios(tier)}
    return [by[n] for n in want if n in by]


def replay(rec):
    rp = rec["replay"]
    if rp.get("driver") == "s":
        from ..explore import sched

        _p, _n, _sig, fails, _st = sched.run_one((rp["scenario"], rp["choices"]))
        out = []
        for f in fails:
            if f.rule.startswith("C03.") or f.rule in ("C10.not-linearizable", "C01.fetch-binding"):
                f.rule = f.rule.replace("C10.", "C03.").replace("C01.", "C03.")
                out.append(f)
        return out
    from .hcommon import replay_h

    return replay_h("C0", rec)
