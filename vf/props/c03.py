"""
C03 -- a UID always names the same message.

Engine H: histories mixing expunge of arbitrary subsets, appends, copies, deliveries, pack
opportunities, rename and restart on an INBOX whose every position is probed
(`FETCH n (UID BODY.PEEK[HEADER.FIELDS (SUBJECT)])`, UID and non-UID forms).  Oracles:
per (mailbox, UIDVALIDITY, UID) the content id and INTERNALDATE first seen never change;
sequence number <-> UID <-> content is a bijection at every command boundary.
"""

from __future__ import annotations

PROP = "C03"
RULES = ("C03.", "C02.uid-reused")
SUBJ = "(UID BODY.PEEK[HEADER.FIELDS (SUBJECT)])"


def cfg(n=3):
    from .common import cfg_basic

    c = cfg_basic(PROP, n, others=("a",), name=f"c03-{n}")
    c["pack_limit"] = 2
    c["pack_ratio"] = 0.8
    c["prelude"] = [{"s": "A", "op": "select", "m": "INBOX"}, {"s": "B", "op": "select", "m": "INBOX"}]
    return c


def alphabet(tier):
    A, B = "A", "B"
    ev = [
        {"s": A, "op": "del", "set": "1"},
        {"s": A, "op": "del", "set": "2"},
        {"s": A, "op": "del", "set": "*"},
        {"s": A, "op": "del", "set": "1:2"},
        {"s": A, "op": "del", "set": "2:*"},
        {"s": A, "op": "del", "set": "1,*"},
        {"s": A, "op": "append", "m": "INBOX"},
        {"s": A, "op": "copy", "set": "2", "dst": "INBOX"},
        {"s": A, "op": "copy", "set": "1:*", "dst": "a"},
        {"s": A, "op": "move", "set": "2", "dst": "a"},
        {"s": "env", "op": "deliver", "m": "INBOX"},
        {"s": "env", "op": "poll", "dt": 21.0},
        {"s": "env", "op": "restart"},
        {"s": A, "op": "rename", "m": "a", "to": "c"},
        {"s": A, "op": "select", "m": "INBOX"},
        {"s": B, "op": "select", "m": "INBOX"},
        {"s": B, "op": "noop"},
        {"s": B, "op": "fetch", "set": "1", "items": SUBJ},
        {"s": B, "op": "fetch", "set": "2", "items": SUBJ},
        {"s": B, "op": "fetch", "set": "*", "items": SUBJ},
        {"s": B, "op": "fetch", "set": "1:*", "items": SUBJ, "uid": True},
        {"s": B, "op": "fetch", "set": "2", "items": SUBJ, "uid": True},
    ]
    return ev


def run(tier, seed, jobs):
    from .hcommon import run_h

    plans = [{"cfg_ref": ("vf.props.c03", "cfg", [3]), "alphabet": alphabet(tier), "depth": 3 if tier == "quick" else 4, "label": "INBOX(3)"}]
    if tier != "quick":
        plans.append({"cfg_ref": ("vf.props.c03", "cfg", [4]), "alphabet": alphabet(tier), "depth": 3, "label": "INBOX(4)"})
    return run_h(PROP, RULES, plans, ("C03",), jobs, seed,
                 ["sessions A (mutator) and B (prober) both selected on INBOX(3 or 4); pack threshold lowered to 2 messages",
                  "expunge subsets are the 6 listed set shapes per state (composed over the history they reach every subset)",
                  "INTERNALDATE compared exactly for messages whose date was supplied (APPEND date-time / delivery agent utime)"],
                 time_budget=85 if tier == "quick" else 900)


def replay(rec):
    from .hcommon import replay_h

    return replay_h("C0", rec)
