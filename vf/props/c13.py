"""
C13 -- mail delivered by MH tools appears correctly; MH tools see IMAP flag changes.

Engine H with an external delivery agent (plain os calls, see World.deliver) as environment
events.  IMAP side: deliveries are announced at the next synchronisation point as new
messages at the end with fresh UIDs and the agent's flags, nothing else changes.  MH side,
after every history: .mh_sequences (parsed by stdlib mailbox.MH) mentions no removed
message and shows the flags the IMAP sessions see -- hence a delivery that reuses a freed
message number inherits nothing.
"""

from __future__ import annotations

PROP = "C13"
RULES = ("C13.", "C01.flush-mismatch", "C01.final-view", "C02.uid-assignment", "C02.copyuid", "C02.appenduid", "C04.final-flags", "C04.stale-cache", "C04.seen-unseen-complement",
         "C05.message-multiset", "C03.uid-content")


def cfg(n=2):
    from .common import cfg_basic

    c = cfg_basic(PROP, n, others=("other",), name=f"c13-{n}")
    c["prelude"] = [{"s": "A", "op": "select", "m": "INBOX"}]
    return c


def cfg_pack():
    """INBOX(3) with the pack threshold lowered to 2 messages: a gap in the numbering makes the next idle period pack the folder."""
    c = cfg(3)
    c["name"] = "c13-pack"
    c["pack_limit"] = 2
    c["pack_ratio"] = 0.8
    return c


def cfg_tree():
    """A mailbox `a` holding flagged messages with a child `a/b`: DELETE a empties it and keeps it as a \\Noselect placeholder."""
    from .. import msgs, templates

    def setup(w, s):
        templates.must_ok(s, "CREATE a")
        templates.must_ok(s, "CREATE a/b")
        templates.append(s, "INBOX", "m1", "", n=1)
        templates.append(s, "a", "p1", "\\Flagged \\Answered", n=11)
        templates.append(s, "a", "p2", "\\Seen \\Deleted kw", n=12)

    tmpl = templates.build("c13-tree", setup)
    init = {"INBOX": [(1, "m1", set(), msgs.idate_epoch(1))], "a/b": [],
            "a": [(1, "p1", {"\\Flagged", "\\Answered"}, msgs.idate_epoch(11)), (2, "p2", {"\\Seen", "\\Deleted", "kw"}, msgs.idate_epoch(12))]}
    return {"prop": PROP, "name": "c13-tree", "template": tmpl, "init": init, "mode": "new", "driver": "h", "loopopts": {},
            "prelude": [{"s": "A", "op": "select", "m": "INBOX"}]}


def alphabet_tree(tier):
    A = "A"
    return [{"s": A, "op": "delete", "m": "a"}, {"s": A, "op": "create", "m": "a"}, {"s": A, "op": "select", "m": "a"}, {"s": A, "op": "select", "m": "INBOX"},
            {"s": "env", "op": "deliver", "m": "a", "unseen": True}, {"s": "env", "op": "deliver", "m": "a", "unseen": False}, {"s": A, "op": "noop"},
            {"s": A, "op": "rename", "m": "INBOX", "to": "old"}, {"s": "env", "op": "deliver", "m": "INBOX", "unseen": False}, {"s": "env", "op": "restart"}]


def alphabet(tier):
    A, B = "A", "B"
    ev = [
        {"s": "env", "op": "deliver", "m": "INBOX", "unseen": True},
        {"s": "env", "op": "deliver", "m": "INBOX", "unseen": False},
        {"s": "env", "op": "deliver", "m": "INBOX", "n": 2},
        # the agent files the message under further sequences (rcvstore -sequence flagged -sequence replied)
        {"s": "env", "op": "deliver", "m": "INBOX", "unseen": True, "seqs": ["flagged", "replied"]},
        {"s": "env", "op": "latent", "m": "INBOX", "seqs": ["flagged"], "then": {"s": A, "op": "store", "set": "1", "mode": "+", "flags": "\\Answered"}},
        {"s": "env", "op": "latent", "m": "INBOX", "unseen": False, "seqs": ["replied", "Draft"], "then": {"s": A, "op": "del", "set": "1"}},
        # a delivery within the second of the folder's mtime, one command, then the mtime advances
        {"s": "env", "op": "latent", "m": "INBOX", "then": {"s": A, "op": "store", "set": "1", "mode": "+", "flags": "\\Flagged"}},
        {"s": "env", "op": "latent", "m": "INBOX", "then": {"s": A, "op": "del", "set": "1"}},
        {"s": "env", "op": "latent", "m": "INBOX", "unseen": False, "then": {"s": A, "op": "store", "set": "2", "mode": "-", "flags": "\\Seen"}},
        {"s": "env", "op": "deliver", "m": "other"},
        {"s": "env", "op": "tick", "m": "INBOX"},
        {"s": "env", "op": "poll", "dt": 21.0},
        {"s": A, "op": "noop"},
        {"s": B, "op": "select", "m": "INBOX"},
        {"s": B, "op": "idle"},
        {"s": B, "op": "done"},
        {"s": A, "op": "store", "set": "1", "mode": "+", "flags": "\\Seen"},
        {"s": A, "op": "store", "set": "*", "mode": "+", "flags": "\\Answered \\Flagged"},
        {"s": A, "op": "store", "set": "*", "mode": "-", "flags": "\\Seen"},
        {"s": A, "op": "store", "set": "1:*", "mode": "=", "flags": "kw1"},
        {"s": A, "op": "fetch", "set": "*", "items": "BODY[]"},
        {"s": A, "op": "del", "set": "*"},
        {"s": A, "op": "del", "set": "1"},
        {"s": A, "op": "append", "m": "INBOX", "flags": "\\Seen"},
        {"s": A, "op": "copy", "set": "*", "dst": "other"},
        {"s": A, "op": "move", "set": "*", "dst": "other"},
        {"s": A, "op": "close"},
        {"s": A, "op": "select", "m": "INBOX"},
        {"s": A, "op": "select", "m": "other"},
    ]
    return ev


def s_scenarios():
    """Deliveries *inside* commands: the agent acts at any scheduling point of the command."""
    sel = [{"s": "A", "op": "select", "m": "INBOX"}, {"s": "B", "op": "select", "m": "INBOX"}]
    env = [{"s": "env", "op": "deliver", "m": "INBOX", "unseen": True, "cids": ["dE1"], "seqs": ["flagged", "replied"]}]
    base = {"cfg_ref": ["vf.props.c13", "scfg", []], "loopopts": {"preempt_timers": False}, "prelude": sel, "env": env}
    out = []
    for name, a in [
        ("deliver-in-store", {"op": "store", "set": "1", "mode": "+", "flags": "\\Flagged kwz"}),
        ("deliver-in-fetch-body", {"op": "fetch", "set": "1", "items": "(UID BODY[])"}),
        ("deliver-in-append", {"op": "append", "m": "INBOX", "cid": "apE", "flags": "\\Seen"}),
        ("deliver-in-copy-self", {"op": "copy", "set": "1", "dst": "INBOX"}),
        ("deliver-in-expunge", {"op": "expunge"}),
        ("deliver-in-noop", {"op": "noop"}),
    ]:
        pre = list(sel)
        if name == "deliver-in-expunge":
            pre = sel + [{"s": "A", "op": "store", "set": "2", "mode": "+", "flags": "\\Deleted"}, {"s": "B", "op": "noop"}]
        out.append(dict(base, name=name, prelude=pre, concurrent={"A": [dict(a, s="A")], "B": [{"s": "B", "op": "noop"}]}))
    # the announcement of a delivery is being pushed to an idling session that reads slowly while another session selects the mailbox
    out.append(dict(base, name="deliver-noop|select, idling slow reader", prelude=sel + [{"s": "B", "op": "idle"}], slow=["B"],
                    concurrent={"A": [{"s": "A", "op": "noop"}], "C": [{"s": "C", "op": "select", "m": "INBOX"}]}))
    # a delivery into the *destination* (which nobody has selected) while COPY / MOVE write into it
    env_o = [{"s": "env", "op": "deliver", "m": "other", "unseen": True, "cids": ["dE2"]}]
    for name, a in [("deliver-into-dst-in-copy", {"op": "copy", "set": "1:2", "dst": "other"}),
                    ("deliver-into-dst-in-move", {"op": "move", "set": "1", "dst": "other"})]:
        out.append(dict(base, name=name, env=env_o, prelude=list(sel), qbound=1, concurrent={"A": [dict(a, s="A")], "B": [{"s": "B", "op": "noop"}]}))
    return out


def scfg():
    from .common import cfg_basic

    return cfg_basic(PROP, 2, others=("other",), name="c13-s")


def run(tier, seed, jobs):
    from .hcommon import run_h

    plans = [{"cfg_ref": ("vf.props.c13", "cfg", [2]), "alphabet": alphabet(tier), "depth": 3, "label": "INBOX(2)"}]
    if tier != "quick":
        plans.append({"cfg_ref": ("vf.props.c13", "cfg", [0]), "alphabet": alphabet(tier), "depth": 3, "label": "INBOX(0)"})
    core = [{"s": "env", "op": "deliver", "m": "INBOX", "unseen": True}, {"s": "env", "op": "deliver", "m": "INBOX", "unseen": False},
            {"s": "A", "op": "del", "set": "*"}, {"s": "A", "op": "store", "set": "*", "mode": "+", "flags": "\\Answered \\Flagged"},
            {"s": "A", "op": "noop"}, {"s": "env", "op": "poll", "dt": 21.0}]
    plans.append({"cfg_ref": ("vf.props.c13", "cfg", [2]), "alphabet": core, "depth": 5 if tier == "quick" else 6, "label": "INBOX(2), core alphabet, deep"})
    # deliveries around a pack: a message that arrives within the second of the folder's mtime is still unknown when the idle
    # period packs the folder
    packa = [{"s": "A", "op": "del", "set": "1"}, {"s": "env", "op": "latent", "m": "INBOX", "then": {"s": "env", "op": "poll", "dt": 21.0}},
             {"s": "env", "op": "deliver", "m": "INBOX", "unseen": True}, {"s": "A", "op": "noop"}, {"s": "env", "op": "poll", "dt": 21.0},
             {"s": "env", "op": "latent", "m": "INBOX", "unseen": False, "then": {"s": "A", "op": "store", "set": "1", "mode": "+", "flags": "\\Flagged"}}]
    plans.append({"cfg_ref": ("vf.props.c13", "cfg_pack", []), "alphabet": packa, "depth": 4 if tier == "quick" else 5, "label": "INBOX(3), pack threshold 2: deliveries around a pack"})
    # commands that remove every message at once (DELETE to a placeholder, RENAME INBOX) and a delivery that reuses the numbers
    plans.append({"cfg_ref": ("vf.props.c13", "cfg_tree", []), "alphabet": alphabet_tree(tier), "depth": 4 if tier == "quick" else 5,
                  "label": "a(2 flagged) with child a/b: DELETE a / CREATE a / RENAME INBOX, then deliveries that reuse the freed numbers"})
    res = run_h(PROP, RULES, plans, ("C13", "C04"), jobs, seed,
                 ["the delivery agent writes message max+1, optionally appends it to `unseen` preserving every other line, and always "
                  "advances the folder mtime (the premise of the property); a `tick` advances the mtime only",
                  "deliveries happen between commands in this check; deliveries *inside* commands are schedule events of the S engine",
                  "sessions: A selected (INBOX or other), B selecting/idling on INBOX"],
                 time_budget=150 if tier == "quick" else 900)
    from ..explore import sched

    per = []
    for sc in s_scenarios():
        r = sched.explore(sc, sc.get("qbound", 2) if tier == "quick" else sc.get("qbound", 2) + 1, jobs, seed, max_exec=30000 if tier == "quick" else 80000)
        for f in r["failures"]:
            f.rule = f.rule.replace("C10.", "C13.")
        res.failures.extend(r["failures"])
        res.coverage["states"] += r["executions"]
        res.coverage["transitions"] += r["steps"]
        res.coverage["traces_validated_against_impl"] += r["executions"]
        per.append({"scenario": sc["name"], "executions": r["executions"], "bound": r["bound_completed"], "outcomes": r["distinct_outcomes"], "cap": r["cap"]})
    res.coverage["schedule_part"] = per
    res.assumptions.append("S part: one delivery (unseen) fired by the agent at any scheduling point of STORE / FETCH BODY[] / APPEND / COPY-to-self / EXPUNGE / NOOP "
                           "with <=2 (thorough 3) deviations; final contents and flags must equal some sequential order of command and delivery")
    return res


def replay(rec):
    rp = rec["replay"]
    if rp.get("driver") == "s":
        from ..explore import sched

        _p, _n, _sig, fails, _st = sched.run_one((rp["scenario"], rp["choices"]))
        for f in fails:
            f.rule = f.rule.replace("C10.", "C13.")
        return fails
    from .hcommon import replay_h

    return replay_h("C", rec)
