"""
C10 -- concurrent sessions behave like some sequential order and never deadlock.

Engine S: for each scenario (2-3 sessions, 1-2 commands each, chosen so that they collide)
every schedule of I/O completions (database thread, file executor, timers, command arrival)
with at most b deviations from the default schedule is executed on the real server.
Oracles: every command gets its tagged reply promptly (no deadlock, no starvation, not by the
watchdog); the observed results + final mailbox contents equal those of some sequential
execution of the commands' documented steps on the reference store (vf.refmodel.linear);
each session's replayed untagged stream stays legal (C01 rules) while commands overlap.
"""

from __future__ import annotations

from ..explore import sched
from ..runner import Result

PROP = "C10"
FSUBJ = "(UID BODY.PEEK[HEADER.FIELDS (SUBJECT)])"


def cfg():
    from .common import cfg_basic

    c = cfg_basic(PROP, 3, others=("other",), other_msgs=2, name="c10")
    return c


SEL_AB = [{"s": "A", "op": "select", "m": "INBOX"}, {"s": "B", "op": "select", "m": "INBOX"}]
SEL_A_Bo = [{"s": "A", "op": "select", "m": "INBOX"}, {"s": "B", "op": "select", "m": "other"}]
DEL1 = [{"s": "A", "op": "store", "set": "1", "mode": "+", "flags": "\\Deleted"}, {"s": "B", "op": "noop"}]

M = {
    "store1": {"op": "store", "set": "1", "mode": "+", "flags": "kwx"},
    "store1m": {"op": "store", "set": "1", "mode": "-", "flags": "\\Seen"},
    "fetch1body": {"op": "fetch", "set": "1", "items": "(UID BODY[])"},
    "fetchflags": {"op": "fetch", "set": "1:*", "items": "(UID FLAGS)"},
    "fetch3": {"op": "fetch", "set": "3", "items": FSUBJ},
    "fetch2": {"op": "fetch", "set": "2", "items": FSUBJ},
    "fetchall": {"op": "fetch", "set": "1:*", "items": FSUBJ},
    "uidfetch": {"op": "fetch", "set": "1:*", "items": FSUBJ, "uid": True},
    "search": {"op": "search", "key": "UNSEEN"},
    "expunge": {"op": "expunge"},
    "close": {"op": "close"},
    "append": {"op": "append", "m": "INBOX", "cid": "cc1"},
    "append2": {"op": "append", "m": "INBOX", "cid": "cc2"},
    "copy12": {"op": "copy", "set": "1:2", "dst": "other"},
    "move1": {"op": "move", "set": "1", "dst": "other"},
    "move3": {"op": "move", "set": "3", "dst": "other"},
    "copyback": {"op": "copy", "set": "1:2", "dst": "INBOX"},
    "copyself": {"op": "copy", "set": "1:3", "dst": "INBOX"},
    "moveself": {"op": "move", "set": "1:2", "dst": "INBOX"},
    "moveback": {"op": "move", "set": "1", "dst": "INBOX"},
    "noop": {"op": "noop"},
    "fetchdates": {"op": "fetch", "set": "1:*", "items": "(UID INTERNALDATE)", "uid": True},
    "capability": {"op": "capability"},
    "idle": {"op": "idle"},
    "done": {"op": "done"},
    "store1y": {"op": "store", "set": "1", "mode": "+", "flags": "kwy"},
    "lsub": {"op": "lsub"},
    "store3del": {"op": "store", "set": "3", "mode": "+", "flags": "\\Deleted"},
    "store2flag": {"op": "store", "set": "2", "mode": "+", "flags": "\\Flagged"},
    "store2del": {"op": "store", "set": "2", "mode": "+", "flags": "\\Deleted"},
    "selother": {"op": "select", "m": "other"},
    "store12": {"op": "store", "set": "1:2", "mode": "+", "flags": "\\Flagged"},
    "selinbox": {"op": "select", "m": "INBOX"},
    "exinbox": {"op": "examine", "m": "INBOX"},
    "delother": {"op": "delete", "m": "other"},
    "renother": {"op": "rename", "m": "other", "to": "renamed"},
}


def scn(name, prelude, **cmds):
    return {"name": name, "cfg_ref": ["vf.props.c10", "cfg", []], "prelude": prelude,
            "concurrent": {sn: [dict(M[k], s=sn) for k in ks] for sn, ks in cmds.items()},
            "loopopts": {"preempt_timers": False}}


LIGHT = ("expunge|fetch3", "expunge|store3", "expunge|search", "expunge|uidfetch", "close|fetch2", "fetchbody|search",
         "select|select-inactive", "expunge|noop", "expunge|expunge", "reselect,noop|expunge", "expunge|fetchall slow reader",
         "expunge|uidfetch slow reader", "close|search slow reader", "expunge|capability,noop slow reader", "expunge|lsub,noop slow reader")


def thorough_bound(name: str) -> int:
    """Three deviations where the scenario has <= ~70 choice points (third wave < ~40 000 executions), else two."""
    return 3 if name in LIGHT else 2


def scenarios(tier):
    S = [
        scn("expunge|fetch3", SEL_AB + DEL1, A=["expunge"], B=["fetch3"]),
        scn("expunge|store3", SEL_AB + DEL1, A=["expunge"], B=["store3del"]),
        # a number that is valid before and after the EXPUNGE but names another message afterwards
        scn("expunge|store2", SEL_AB + DEL1, A=["expunge"], B=["store2flag"]),
        scn("expunge|search", SEL_AB + DEL1, A=["expunge"], B=["search"]),
        scn("expunge|uidfetch", SEL_AB + DEL1, A=["expunge"], B=["uidfetch"]),
        scn("expunge|noop", SEL_AB + DEL1, A=["expunge"], B=["noop"]),
        scn("expunge|expunge", SEL_AB + DEL1, A=["expunge"], B=["expunge"]),
        scn("close|fetch2", SEL_AB + DEL1, A=["close"], B=["fetch2"]),
        scn("move1|fetch3", SEL_AB, A=["move1"], B=["fetch3"]),
        scn("move1|move3", SEL_AB, A=["move1"], B=["move3"]),
        scn("store|fetchbody", SEL_AB, A=["store1"], B=["fetch1body"]),
        scn("store|store", SEL_AB, A=["store1"], B=["store1m"]),
        scn("fetchbody|search", SEL_AB, A=["fetch1body"], B=["search"]),
        scn("append|fetchflags", SEL_AB, A=["append"], B=["fetchflags"]),
        scn("append|append", SEL_AB, A=["append"], B=["append2"]),
        scn("copy|copyback", SEL_A_Bo, A=["copy12"], B=["copyback"]),
        scn("move|moveback", SEL_A_Bo, A=["move1"], B=["moveback"]),
        scn("copy|delete-dst", SEL_AB, A=["copy12"], B=["delother"]),
        scn("copy|rename-dst", SEL_AB, A=["copy12"], B=["renother"]),
        scn("delete|select,noop", SEL_AB, A=["delother"], B=["selother", "noop"]),
        scn("select|select-inactive", [], A=["selother"], B=["selother"]),
        scn("copy|expunge", SEL_AB + DEL1, A=["expunge"], B=["copy12"]),
        # source and destination are one mailbox: the command queues twice on it, with another session's conflicting command in between
        scn("copyself|store12", SEL_AB, A=["copyself"], B=["store12"]),
        # deviations that *stay*: an operation passed over remains postponed until nothing else can run, so one session's
        # command can run to completion in the middle of the other's (loop option sticky_ops)
    ]
    if tier != "quick":
        S += [
            dict(scn("copy|expunge sticky", SEL_AB + DEL1, A=["expunge"], B=["copy12"]), loopopts={"preempt_timers": False, "sticky_ops": True}),
            dict(scn("move1|fetchall sticky", SEL_AB, A=["move1"], B=["fetchall"]), loopopts={"preempt_timers": False, "sticky_ops": True}),
            dict(scn("store|store sticky", SEL_AB, A=["store1"], B=["store1m"]), loopopts={"preempt_timers": False, "sticky_ops": True}),
        ]
    S += [
        # selecting the mailbox one has selected already, while another session changes it
        scn("reselect,noop|expunge", SEL_AB + DEL1, A=["expunge"], B=["selinbox", "noop"]),
        scn("re-examine,noop|move", SEL_AB, A=["move1"], B=["exinbox", "noop"]),
        # admission next to *two* running commands: a parked unrelated FETCH first, then COPY, then an overlapping STORE
        dict(scn("3:fetch3 parked|copy12|store12", SEL_AB + [{"s": "C", "op": "select", "m": "INBOX"}], C=["fetch3"], A=["copy12"], B=["store12"]), parked=["C"]),
        # the same races with a peer that reads slowly (the reader's writer.drain() may park after any response)
        dict(scn("move1|fetchall slow reader", SEL_AB, A=["move1"], B=["fetchall"]), slow=["B"]),
        dict(scn("expunge|fetchall slow reader", SEL_AB + DEL1, A=["expunge"], B=["fetchall"]), slow=["B"]),
        dict(scn("expunge|uidfetch slow reader", SEL_AB + DEL1, A=["expunge"], B=["uidfetch"]), slow=["B"]),
        dict(scn("close|search slow reader", SEL_AB + DEL1, A=["close"], B=["search"]), slow=["B"]),
        # flush points that do not queue on the mailbox (CAPABILITY, LSUB, ...) of a slow reader that already has a
        # notification waiting (A's STORE; no NOOP by B in the set-up), while another session's EXPUNGE adds more
        dict(scn("expunge|capability,noop slow reader", SEL_AB + DEL1[:1], A=["expunge"], B=["capability", "noop"]), slow=["B"]),
        dict(scn("expunge|lsub,noop slow reader", SEL_AB + DEL1[:1], A=["expunge"], B=["lsub", "noop"]), slow=["B"]),
        # entering IDLE flushes what is waiting and then switches to immediate delivery: flag changes made meanwhile keep their order
        dict(scn("store,store|idle,done slow reader", SEL_AB + DEL1[:1], A=["store1", "store1y"], B=["idle", "done"]), slow=["B"]),
        dict(scn("expunge|idle,done slow reader", SEL_AB + DEL1[:1], A=["expunge"], B=["idle", "done"]), slow=["B"]),
        # two sessions name a mailbox that is not active yet while a third renames another one (the rename holds the lock on the
        # table of active mailboxes across its database write); world of C06: INBOX(3), a, a/b, e, p, p/q, x
        {"name": "3:rename-x|select-e|select-e (e inactive)", "cfg_ref": ["vf.props.c06", "cfg", []], "prelude": [{"s": "A", "op": "select", "m": "INBOX"}],
         "concurrent": {"A": [{"s": "A", "op": "rename", "m": "x", "to": "y"}], "B": [{"s": "B", "op": "select", "m": "e"}], "C": [{"s": "C", "op": "select", "m": "e"}]},
         "loopopts": {"preempt_timers": False}},
        # a mailbox is renamed while another session names it (old name / new name): afterwards the mailbox list is that of some order
        {"name": "rename-x|status-x,status-y", "cfg_ref": ["vf.props.c06", "cfg", []], "prelude": [{"s": "A", "op": "select", "m": "INBOX"}, {"s": "B", "op": "select", "m": "INBOX"}],
         "concurrent": {"A": [{"s": "A", "op": "rename", "m": "x", "to": "y"}], "B": [{"s": "B", "op": "status", "m": "x"}, {"s": "B", "op": "status", "m": "y"}]},
         "loopopts": {"preempt_timers": False}},
        # a mailbox with an inferior is deleted (kept as a \\Noselect placeholder) while APPEND / COPY into it wait in its queue
        {"name": "delete-parent|append-into", "cfg_ref": ["vf.props.c06", "cfg", []], "prelude": [{"s": "A", "op": "select", "m": "INBOX"}, {"s": "B", "op": "select", "m": "INBOX"}],
         "concurrent": {"A": [{"s": "A", "op": "delete", "m": "p"}], "B": [{"s": "B", "op": "append", "m": "p", "cid": "q9"}, {"s": "B", "op": "noop"}]},
         "loopopts": {"preempt_timers": False}, "epilogue_create": ["p"]},
        {"name": "delete-parent|copy-into", "cfg_ref": ["vf.props.c06", "cfg", []], "prelude": [{"s": "A", "op": "select", "m": "INBOX"}, {"s": "B", "op": "select", "m": "INBOX"}],
         "concurrent": {"A": [{"s": "A", "op": "delete", "m": "p"}], "B": [{"s": "B", "op": "copy", "set": "1", "dst": "p"}, {"s": "B", "op": "noop"}]},
         "loopopts": {"preempt_timers": False}, "epilogue_create": ["p"]},
        # the destination's session looks at internal dates while the COPY / MOVE that adds the messages is finishing
        # (an I/O operation passed over stays postponed until nothing else can run: one slow file operation, not one per step)
        dict(scn("copy|fetchdates-in-dst", SEL_A_Bo, A=["copy12"], B=["fetchdates", "fetchdates"]), loopopts={"preempt_timers": False, "sticky_ops": True}),
        # an EXPUNGE that finds nothing to do when it is admitted, next to a STORE that is about to give it something
        scn("3:store2del|expunge|noop", SEL_AB + [{"s": "C", "op": "select", "m": "INBOX"}], A=["store2del"], C=["expunge"], B=["noop"]),
        # a notification is being pushed to an idling session that reads slowly while the set of sessions on the mailbox changes
        dict(scn("3:store|select, idling slow reader", SEL_AB + [{"s": "B", "op": "idle"}], A=["store1"], C=["selinbox"]), slow=["B"]),
        dict(scn("3:expunge|close, idling slow reader", SEL_AB + [{"s": "C", "op": "select", "m": "INBOX"}] + DEL1[:1] + [{"s": "B", "op": "idle"}], A=["expunge"], C=["close"]), slow=["B"]),
        # start state: B is inside the flush that IDLE does before it switches to immediate delivery (its second drain)
        dict(scn("store,store|idle parked in its flush,done", SEL_AB + DEL1[:1], A=["store1", "store1y"], B=["idle", "done"]), parked=["B"], parked_at={"B": 2}),
    ]
    if tier != "quick":
        S += [
            scn("store,expunge|fetch3,noop", SEL_AB, A=["store3del", "expunge"], B=["fetch3", "noop"]),
            scn("moveself|store12", SEL_AB, A=["moveself"], B=["store12"]),
            scn("3:copy|copyback|store12", SEL_A_Bo + [{"s": "C", "op": "select", "m": "INBOX"}], A=["copy12"], B=["copyback"], C=["store12"]),
            scn("3:expunge|fetch3|append", SEL_AB + DEL1 + [{"s": "C", "op": "select", "m": "INBOX"}], A=["expunge"], B=["fetch3"], C=["append"]),
            scn("3:move|moveback|noop", SEL_A_Bo + [{"s": "C", "op": "select", "m": "INBOX"}], A=["move1"], B=["moveback"], C=["noop"]),
        ]
    return S


THOROUGH_ONLY = ("delete-parent|copy-into", "expunge|idle,done slow reader", "3:expunge|close, idling slow reader", "expunge|lsub,noop slow reader",
                 "store,store|idle,done slow reader")


def run(tier, seed, jobs) -> Result:
    res = Result(level="model_checking")
    bound = 2
    tot_exec = tot_steps = 0
    per = []
    caps = []
    distinct = 0
    import time as _t

    deadline = _t.time() + (100000 if tier == "quick" else 2400)  # thorough: 40 minutes, then the remaining scenarios stop at one deviation
    heavy = ("move1|fetch3", "move1|move3", "move|moveback", "copy|rename-dst", "re-examine,noop|move")
    for sc in scenarios(tier):
        if tier == "quick" and sc["name"] in THOROUGH_ONLY:
            continue  # (variants of scenarios that stay in the quick tier; C01 / C04 run some of them in their own schedule parts)
        b = bound
        if tier == "quick" and sc["name"] in heavy:
            b = 1  # >100 choice points each: two deviations are explored in the thorough tier (and copy|delete-dst, copy|copyback stay at 2 here)
        if tier != "quick":
            sc = dict(sc, loopopts=dict(sc.get("loopopts") or {}, preempt_timers=True))
            b = thorough_bound(sc["name"])
        r = sched.explore(sc, b, jobs, seed, max_exec=20000 if tier == "quick" else 120000, deadline=deadline)
        res.failures.extend(r["failures"])
        tot_exec += r["executions"]
        tot_steps += r["steps"]
        distinct += r["distinct_outcomes"]
        per.append({"scenario": sc["name"], "bound_completed": r["bound_completed"], "executions": r["executions"],
                    "choice_points": r["max_choice_points"], "distinct_outcomes": r["distinct_outcomes"]})
        if r["cap"]:
            caps.append(sc["name"] + ": " + r["cap"])
    res.coverage = {
        "states": tot_exec,
        "transitions": tot_steps,
        "traces_validated_against_impl": tot_exec,
        "samples": [{"scenario": s["name"], "concurrent": s["concurrent"]} for s in scenarios(tier)[:3]],
        "scenarios": per,
        "distinct_outcomes_total": distinct,
        "caps_hit": caps,
        "exhaustive": not caps,
        "explanation": "states = complete executions of the real server (one per schedule with <= b deviations); transitions = scheduler steps. "
                       "Every execution is an implementation trace; the sequential reference outcomes are computed by vf.refmodel.linear",
    }
    res.assumptions = [
        "deviation bound b=2 for every scenario (thorough: b=3 for the eleven cheaper scenarios, timers may pre-empt ready callbacks, 3-session and 2-command scenarios); an execution always runs to completion",
        "an external operation (executor job / DB statement) is atomic: executed and its completion delivered at one scheduling point; the DB channel is FIFO",
        "timers may fire whenever no callback is ready (slow I/O), at most 10 virtual seconds ahead",
        "no long randomised workloads (that would be sampling)",
    ]
    return res


def replay(rec):
    rp = rec["replay"]
    _p, _n, _sig, fails, _st = sched.run_one((rp["scenario"], rp["choices"]))
    return fails
