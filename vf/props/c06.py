"""
C06 -- every command is answered exactly once, promptly, whatever its arguments.

Engine E through the real IMAPClientProxy.run(): the matrix
   command form x argument class x mailbox state x session state
(every command of the server incl. UID forms; message sets in range, 0, N+1, *, reversed,
beyond, duplicates; mailboxes existing, empty, missing, \\Noselect -- also after a restart --,
nested, the one selected / deleted under the session; sessions authenticated, selected
read-write / read-only, with EXPUNGEs pending, idling, orphaned), each cell from a fresh world
prepared by a short set-up history.  Oracle: exactly one tagged OK/NO/BAD with the command's
tag, after all untagged data of the command (nothing follows it); answered within 5 virtual
seconds (never by the 120 s watchdog); afterwards NOOP is answered, unless the session was
told BYE -- a session may only be closed after BYE (or LOGOUT).
A small S run covers DELETE / RENAME racing commands queued on the same mailbox.
"""

from __future__ import annotations

from ..explore import sched
from ..hdriver import HState, _parked
from ..runner import Failure, Result, pmap, seeded_order
from ..sessions import imap_literal
from .. import msgs, templates

PROP = "C06"


def template():
    def setup(w, s):
        for mb in ("a", "a/b", "e", "p", "p/q", "x"):
            templates.must_ok(s, f"CREATE {mb}")
        for i in (1, 2, 3):
            templates.append(s, "INBOX", f"m{i}", "", n=i)
        templates.append(s, "a", "a1", "", n=11)
        templates.append(s, "p", "p1", "", n=12)
        templates.append(s, "x", "x1", "", n=13)

    return templates.build("c06", setup)


def cfg():
    t = template()
    init = {"INBOX": [(i, f"m{i}", set(), msgs.idate_epoch(i)) for i in (1, 2, 3)], "a": [(1, "a1", set(), msgs.idate_epoch(11))], "a/b": [], "e": [],
            "p": [(1, "p1", set(), msgs.idate_epoch(12))], "p/q": [], "x": [(1, "x1", set(), msgs.idate_epoch(13))]}
    return {"prop": PROP, "name": "c06", "template": t, "init": init, "mode": "new", "driver": "e", "loopopts": {}}


SETUPS = {
    "auth": [],
    "selected": [{"s": "A", "op": "select", "m": "INBOX"}],
    "examined": [{"s": "A", "op": "examine", "m": "INBOX"}],
    "selected-empty": [{"s": "A", "op": "select", "m": "e"}],
    "pending-expunge": [{"s": "A", "op": "select", "m": "INBOX"}, {"s": "B", "op": "select", "m": "INBOX"}, {"s": "B", "op": "del", "set": "1"}],
    "orphaned": [{"s": "A", "op": "select", "m": "x"}, {"s": "B", "op": "delete", "m": "x"}],
    "noselect-live": [{"s": "B", "op": "delete", "m": "p"}, {"s": "A", "op": "select", "m": "INBOX"}],
    "noselect-restart": [{"s": "B", "op": "delete", "m": "p"}, {"s": "env", "op": "restart"}, {"s": "A", "op": "select", "m": "INBOX"}],
    "idling": [{"s": "A", "op": "select", "m": "INBOX"}, {"s": "A", "op": "idle"}],
    # the same, but the client does not send DONE before its next command (a protocol error, still "a command a session sends")
    "idling-impatient": [{"s": "A", "op": "select", "m": "INBOX"}, {"s": "A", "op": "idle"}],
    "after-restart": [{"s": "A", "op": "select", "m": "INBOX"}, {"s": "env", "op": "restart"}],
    # the server counts repeated SELECTs of the selected mailbox (it says BYE after too many): ten of them, the cell's
    # command is the next one
    "reselected-10x": [{"s": "A", "op": "select", "m": "INBOX"}] * 11,
}

NAMES = ["INBOX", "a", "e", "nosuch", "p", '""', "a/b", "x", "p/q"]
SETS = ["1", "3", "4", "0", "*", "2:9", "3:1", "1,1", "1:*", "*:4"]


def commands():
    out = ["NOOP", "CHECK", "CLOSE", "EXPUNGE", "UNSELECT", "CAPABILITY", "NAMESPACE", "ID NIL", "LOGOUT", "LOGIN u p", "AUTHENTICATE PLAIN", "IDLE"]
    for nm in NAMES:
        for c in ("SELECT", "EXAMINE", "CREATE", "DELETE", "SUBSCRIBE", "UNSUBSCRIBE"):
            out.append(f"{c} {nm}")
        out.append(f"STATUS {nm} (MESSAGES UIDNEXT UNSEEN)")
    for a, b in [("a", "z"), ("nosuch", "z"), ("INBOX", "z"), ("a", "INBOX"), ("p", "z"), ("a", "nodir/z"), ("a", "a/b/c"), ("x", "e")]:
        out.append(f"RENAME {a} {b}")
    for ref, pat in [('""', '"*"'), ('""', '""'), ('"p/"', '"%"'), ('""', '"INBOX"'), ('"nosuch/"', '"*"')]:
        out.append(f"LIST {ref} {pat}")
        out.append(f"LSUB {ref} {pat}")
    out.append('LIST (SUBSCRIBED RECURSIVEMATCH) "" "*" RETURN (CHILDREN STATUS (MESSAGES))')
    for nm in ("INBOX", "nosuch", "p", "e"):
        out.append(("APPEND", nm))
    for st in SETS:
        for u in ("", "UID "):
            out.append(f"{u}FETCH {st} (FLAGS)")
            out.append(f"{u}FETCH {st} BODY[]")
            out.append(f"{u}STORE {st} +FLAGS (\\Seen)")
            out.append(f"{u}COPY {st} a")
            out.append(f"{u}COPY {st} nosuch")
            out.append(f"{u}MOVE {st} a")
            out.append(f"{u}SEARCH {u}{st}")
        out.append(f"UID EXPUNGE {st}")
    out += ["SEARCH ALL", "SEARCH BEFORE 31-Feb-2020", "FETCH 1 BODY[9]", "FETCH 1 (BODY[1.2.HEADER])", "STORE 1 +FLAGS (\\Recent)", "STORE 1 FLAGS ()",
            "COPY 1 INBOX", "MOVE 1 INBOX", "BOGUS", "FETCH", "UID", "UID NOOP",
            'ID ("name" "Mac OS X Mail" "version" "16.0")', 'ID ("name" "iPhone Mail" "os" "iOS")', 'LIST (SPECIAL-USE) "" "*"',
            'LIST "" ("a" "p/%" "nosuch")', 'LIST "" "*" RETURN (SPECIAL-USE SUBSCRIBED)', 'LIST (REMOTE) "" "%"', 'LIST "" "%" RETURN (STATUS (UIDVALIDITY RECENT))',
            "FETCH 1 (BODY[2.MIME] BODY[1.HEADER.FIELDS (TO)] BODY[TEXT]<0.5>)", "FETCH 1:* (UID RFC822.SIZE INTERNALDATE ENVELOPE BODYSTRUCTURE)",
            "SEARCH CHARSET UTF-8 TEXT x", "SEARCH CHARSET bogus ALL", "SEARCH OR (NOT ALL) (LARGER 1 SMALLER 99999) UID 1:*", "STARTTLS", "ENABLE CONDSTORE",
            "STORE 1 +FLAGS.SILENT (a b c d e f g h)", "UID STORE 1:* -FLAGS (\\Deleted)",
            # keywords an MH folder cannot hold, system flags in another case
            "STORE 1 +FLAGS (a:b)", "STORE 1:* FLAGS (k\xe9)", "UID STORE 1 -FLAGS (\\seen \\DELETED x:y)", ("APPEND", "INBOX", "kw a:b"), ("APPEND", "e", "k\xe9")]
    return out


def shape(cmd) -> str:
    if isinstance(cmd, tuple):
        return "APPEND " + ("INBOX" if cmd[1] == "INBOX" else cmd[1])
    w = cmd.split()
    k = w[0] + (" " + w[1] if w[0] == "UID" and len(w) > 1 else "")
    return k


def work(unit):
    fails = []
    n = 0
    outcomes = set()
    c = cfg()
    for setup, cmd in unit:
        st = HState(dict(c, prelude=[]))
        try:
            for ev in SETUPS[setup]:
                st.apply(ev)
            st.failures.clear()
            s = st.sess("A")
            s.on_resp = None
            w = st.w
            if isinstance(cmd, tuple):
                text = f"APPEND {cmd[1]} ({cmd[2] if len(cmd) > 2 else ''}) ".encode("latin-1") + imap_literal(msgs.make("c6"))
            else:
                text = cmd
            det = {"setup": setup, "cmd": shape(cmd)}
            rp = {"driver": "c06", "setup": setup, "cmd": list(cmd) if isinstance(cmd, tuple) else cmd}

            def fail(rule, exp=None, obs=None, **kw):
                fails.append(Failure(PROP, rule, dict(det, **kw), rp, exp, obs, [x.raw[:120].decode("latin-1") for x in s.responses[-8:]]))

            n += 1
            idling = st.model.session("A").idling
            impatient = setup == "idling-impatient"
            idle_tag = st.cur_cmd.get("A", (None,))[0] if hasattr(st, "cur_cmd") else None
            if idling and not impatient:
                # a client in IDLE sends DONE first; the property is about the IDLE command itself
                n0 = len(s.responses)
                s.send_raw(b"DONE")
                w.loop.run_until(lambda: any(r.kind == "tagged" for r in s.responses[n0:]) or s.task.done(), horizon=w.loop.time() + 125)
                w.loop.settle()
                tg = [r for r in s.responses[n0:] if r.kind == "tagged"]
                if len(tg) != 1 or tg[0].typ != "OK":
                    fail("C06.idle-not-terminated", "one tagged OK after DONE", [r.raw[:60].decode("latin-1") for r in s.responses[n0:]])
            tag = s.new_tag()
            t0 = w.loop.time()
            n0 = len(s.responses)
            s.send(text, tag)
            is_idle = isinstance(cmd, str) and cmd == "IDLE"
            w.loop.run_until(lambda: s.done_or_closed(tag) or (is_idle and any(r.kind == "cont" for r in s.responses[n0:])), horizon=t0 + 125)
            dt = w.loop.time() - t0
            w.loop.settle()
            if isinstance(cmd, str) and cmd == "IDLE" and not impatient:
                cont = [r for r in s.responses[n0:] if r.kind == "cont"]
                if not cont and not s.task.done():
                    if s.tagged(tag) is None:
                        fail("C06.no-tagged-reply", "continuation or tagged refusal", None, parked=_parked(w))
                        continue
                if cont:
                    s.send_raw(b"DONE")
                    w.loop.run_until(lambda: s.done_or_closed(tag), horizon=w.loop.time() + 125)
                    w.loop.settle()
            new = s.responses[n0:]
            tagged = [r for r in new if r.kind == "tagged" and r.tag == tag]
            bye = any(r.kind == "untagged" and r.typ == "BYE" for r in new)
            outcomes.add((shape(cmd), tagged[0].typ if tagged else None, bye))
            if s.pending_garbage():
                fail("C07.incomplete-response", None, s.pending_garbage()[:100].decode("latin-1"))
            if len(tagged) > 1:
                fail("C06.answered-twice", 1, len(tagged))
            if not tagged:
                if s.task.done() or s.writer.closed:
                    if not bye:
                        fail("C06.dropped-without-BYE", "tagged reply or BYE", [r.raw[:80].decode("latin-1") for r in new], log=_log(w))
                else:
                    fail("C06.no-tagged-reply", "tagged reply", None, parked=_parked(w))
                continue
            if dt > 5.0:
                fail("C06.answered-by-watchdog" if dt >= 119 else "C06.slow-reply", "< 5 s virtual", dt, parked=_parked(w))
            idx = new.index(tagged[0])
            if idx != len(new) - 1 and not bye:
                fail("C06.data-after-tagged-reply", "tagged reply last", [r.raw[:60].decode("latin-1") for r in new[idx + 1:]])
            n1 = len(s.responses)
            w.loop.advance(2.0)
            w.loop.settle()
            if len(s.responses) != n1 and not (isinstance(cmd, str) and cmd == "LOGOUT"):
                late = [r for r in s.responses[n1:] if not (r.kind == "untagged" and r.typ in ("EXISTS", "RECENT", "BYE"))]
                if late:
                    fail("C06.data-after-tagged-reply", "nothing after the tagged reply", [r.raw[:60].decode("latin-1") for r in late], late=True)
            if isinstance(cmd, str) and cmd == "LOGOUT":
                continue
            closed = s.task.done() or s.writer.closed
            if closed:
                if not bye:
                    fail("C06.dropped-without-BYE", "session usable", "closed", log=_log(w))
                continue
            if impatient and tagged[0].typ == "BAD":
                # refused because the session is idling: DONE still ends the IDLE with its own tagged OK
                n2 = len(s.responses)
                s.send_raw(b"DONE")
                w.loop.run_until(lambda: any(r.kind == "tagged" for r in s.responses[n2:]) or s.task.done(), horizon=w.loop.time() + 125)
                w.loop.settle()
                tg = [r for r in s.responses[n2:] if r.kind == "tagged"]
                if len(tg) != 1 or tg[0].typ != "OK" or tg[0].tag == tag:
                    fail("C06.idle-not-terminated", "one tagged OK for the IDLE after DONE", [r.raw[:60].decode("latin-1") for r in s.responses[n2:]])
            r, _ = s.do("NOOP", horizon=20)
            if r is None or r.typ != "OK":
                told = any(x.kind == "untagged" and x.typ == "BYE" for x in s.responses[n1:])
                if not told:
                    fail("C06.session-unusable-afterwards", "NOOP OK", str(r))
        finally:
            st.close()
    return fails, n, outcomes


def _log(w):
    return sorted({f"{r[1]}.{r[2]}:{r[3]}" for r in w.log_records if r[0] in ("ERROR", "CRITICAL") or r[3]})[:4]


def s_scenarios():
    base = {"cfg_ref": ["vf.props.c06", "cfg", []], "loopopts": {"preempt_timers": False}}
    sel = [{"s": "A", "op": "select", "m": "INBOX"}, {"s": "B", "op": "select", "m": "INBOX"}]
    out = []
    for name, a, b in [
        ("delete|copy-into", {"op": "delete", "m": "x"}, {"op": "copy", "set": "1", "dst": "x"}),
        ("delete|append-into", {"op": "delete", "m": "x"}, {"op": "append", "m": "x", "cid": "q1"}),
        ("rename|copy-into", {"op": "rename", "m": "x", "to": "y"}, {"op": "copy", "set": "1:2", "dst": "x"}),
        ("delete|select", {"op": "delete", "m": "x"}, {"op": "select", "m": "x"}),
        ("rename|select", {"op": "rename", "m": "x", "to": "y"}, {"op": "select", "m": "x"}),
        ("delete-parent|select-child", {"op": "delete", "m": "a"}, {"op": "select", "m": "a/b"}),
    ]:
        out.append(dict(base, name=name, prelude=sel, concurrent={"A": [dict(a, s="A")], "B": [dict(b, s="B")]}))
    # commands that do not touch messages, sent while another session's FETCH is in progress on the mailbox (slow reader)
    fa = {"s": "A", "op": "fetch", "set": "1:*", "items": "(UID BODY.PEEK[HEADER.FIELDS (SUBJECT)])"}
    for name, bs in [("fetch in progress|subscribe,status", [{"op": "subscribe", "m": "INBOX"}, {"op": "status", "m": "INBOX"}]),
                     ("fetch in progress|unsubscribe,noop", [{"op": "unsubscribe", "m": "INBOX"}, {"op": "noop"}]),
                     ("fetch in progress|examine,close", [{"op": "examine", "m": "INBOX"}, {"op": "close"}]),
                     ("fetch in progress|create,delete child", [{"op": "create", "m": "INBOX/k"}, {"op": "delete", "m": "INBOX/k"}])]:
        out.append(dict(base, name=name, prelude=sel, parked=["A"], concurrent={"A": [fa], "B": [dict(b, s="B") for b in bs]}))
    return out


def cfg_long():
    """INBOX(70): a FETCH of all of it to a client that takes 1.8 s per response lasts longer than the 120 s command watchdog."""
    from .common import cfg_basic

    return cfg_basic(PROP, 70, others=("other",), name="c06-long")


def work_long(unit):
    """Commands that make steady progress for more than 120 s (a slowly reading peer): the watchdog must be pushed back, the answer is the
    command's own."""
    fails, n = [], 0
    for cmd in unit:
        st = HState(dict(cfg_long(), prelude=[{"s": "A", "op": "select", "m": "INBOX"}]))
        try:
            s = st.sess("A")
            s.on_resp = None
            st.failures.clear()
            s.writer.drain_mode = 7
            tag = s.new_tag()
            t0 = st.w.loop.time()
            s.send(cmd, tag)
            st.w.loop.run_until(lambda: s.done_or_closed(tag), horizon=t0 + 400)
            s.writer.drain_mode = 0
            st.w.loop.settle()
            n += 1
            r = s.tagged(tag)
            dt = st.w.loop.time() - t0
            rp = {"driver": "c06-long", "cmd": cmd}
            if r is None:
                fails.append(Failure(PROP, "C06.no-tagged-reply", {"setup": "slow-reader-long", "cmd": shape(cmd)}, rp, "tagged reply", None))
            elif r.typ != "OK":
                fails.append(Failure(PROP, "C06.answered-by-watchdog" if b"timed out" in r.raw else "C06.long-command-refused", {"setup": "slow-reader-long", "cmd": shape(cmd)},
                                     rp, "OK after %d responses" % 70, f"{r.raw[:80]!r} after {dt:.0f} s"))
        finally:
            st.close()
    return fails, n, set()


def work_preauth(_unit):
    """Before login (handled by the front-end itself): every command gets exactly one tagged reply, or the connection is told BYE."""
    from ..frontend import FrontWorld

    fails, n = [], 0
    cmds = ["NOOP", "CAPABILITY", "IDLE", "LOGOUT", "SELECT INBOX", "FETCH 1 (FLAGS)", "BOGUS", "LOGIN alice wrongpw", "ID NIL", "NAMESPACE", "CHECK", "UID FETCH 1 (UID)",
            "STATUS INBOX (MESSAGES)", "AUTHENTICATE PLAIN", "STARTTLS", "UNSELECT", "LIST \"\" \"*\""]
    for first in cmds:
        fw = FrontWorld()
        try:
            s = fw.imap_client()
            for k, c in enumerate([first, "NOOP"]):
                tag = f"p{k}"
                out = s.line(f"{tag} {c}".encode())
                n += 1
                closed = s.task.done() or s.writer.closed
                tagged = [ln for ln in out.split(b"\r\n") if ln.startswith(tag.encode() + b" ")]
                if b"+ " in out and not tagged and not closed:
                    # a continuation request: the client answers it (DONE for IDLE, '*' cancels an AUTHENTICATE exchange)
                    out += s.line(b"DONE" if c == "IDLE" else b"*")
                    tagged = [ln for ln in out.split(b"\r\n") if ln.startswith(tag.encode() + b" ")]
                    closed = s.task.done() or s.writer.closed
                if len(tagged) != 1 and not (closed and b"* BYE" in out) and not (c == "LOGOUT" and b"BYE" in out):
                    fails.append(Failure(PROP, "C06.no-tagged-reply" if not tagged else "C06.answered-twice", {"setup": "before-login", "cmd": shape(c), "after": shape(first) if k else None},
                                         {"driver": "c06-preauth", "first": first}, "exactly one tagged reply", out[:200].decode("latin-1")))
                    break
                if closed:
                    break
        finally:
            fw.close()
    return fails, n, set()


def run(tier, seed, jobs) -> Result:
    cfg()
    cmds = commands()
    cells = [(su, c) for su in SETUPS for c in cmds]
    units = [cells[i : i + 20] for i in range(0, len(cells), 20)]
    res = Result(level="model_checking")
    n = 0
    outcomes = set()
    for f, k, oc in pmap(work, seeded_order(units, seed), jobs):
        res.failures.extend(f)
        n += k
        outcomes |= oc
    cfg_long()
    for f, k, _ in pmap(work_long, [["FETCH 1:* (FLAGS)"], ["UID FETCH 1:* (UID BODY.PEEK[HEADER.FIELDS (SUBJECT)])"], ["UID SEARCH ALL"], ["COPY 1:* other"]], jobs):
        res.failures.extend(f)
        n += k
    f, k, _ = work_preauth(None)
    res.failures.extend(f)
    n += k
    s_exec = s_steps = 0
    per = []
    for sc in s_scenarios():
        r = sched.explore(sc, 2 if tier == "quick" else 3, jobs, seed, max_exec=100000 if tier == "quick" else 120000)
        for f in r["failures"]:
            if f.rule.startswith("C10.command-never") or f.rule.startswith("C10.answered-by-watchdog"):
                f.rule = "C06." + f.rule.split(".", 1)[1]
                res.failures.append(f)
        s_exec += r["executions"]
        s_steps += r["steps"]
        per.append({"scenario": sc["name"], "executions": r["executions"], "bound": r["bound_completed"], "outcomes": r["distinct_outcomes"]})
    res.coverage = {
        "states": n + s_exec, "transitions": n + s_steps, "traces_validated_against_impl": n + s_exec,
        "samples": [{"setup": cells[7][0], "cmd": cells[7][1]}, {"setup": cells[len(cells) // 2][0], "cmd": cells[len(cells) // 2][1]}, {"setup": cells[-9][0], "cmd": cells[-9][1]}],
        "matrix_cells": len(cells), "commands": len(cmds), "setups": len(SETUPS), "distinct_outcomes": len(outcomes), "schedule_part": per, "exhaustive": True,
        "explanation": "states = executions: one per (set-up history, command) cell of the matrix, each on a fresh real server, plus every schedule with <=b deviations of "
                       "six DELETE/RENAME-versus-queued-command scenarios; every execution is an implementation trace",
    }
    res.assumptions = ["'promptly' = under 5 s of virtual time and never through the 120 s command watchdog",
                       "cells 'idling-impatient': a command sent while IDLE is active, without DONE; long part: four commands to a peer that takes 1.8 s per response on INBOX(70) "
                       "(more than 120 s of steady progress); before-login part: 17 commands through the front-end, each followed by NOOP",
                       "malformed lines are covered by C08; here one representative of each (BOGUS, FETCH, UID, UID NOOP)"]
    return res


def replay(rec):
    rp = rec["replay"]
    if rp.get("driver") == "c06-long":
        return work_long([rp["cmd"]])[0]
    if rp.get("driver") == "c06-preauth":
        return [f for f in work_preauth(None)[0] if f.replay.get("first") == rp.get("first")]
    if rp.get("driver") == "c06":
        cmd = tuple(rp["cmd"]) if isinstance(rp["cmd"], list) else rp["cmd"]
        return work([(rp["setup"], cmd)])[0]
    _p, _n, _sig, fails, _st = sched.run_one((rp["scenario"], rp["choices"]))
    for f in fails:
        if f.rule.startswith("C10."):
            f.rule = "C06." + f.rule.split(".", 1)[1]
    return fails
