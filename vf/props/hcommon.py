"""Glue shared by the H-engine checks: run several BFS plans and assemble the evidence."""

from __future__ import annotations

import time

from ..explore import hist
from ..runner import Result


def run_h(prop: str, rules: tuple, plans: list, checks: tuple, jobs: int, seed: int, assumptions: list,
          time_budget: float | None = None) -> Result:
    """plans: list of dict(cfg_ref, alphabet, depth, label)."""
    res = Result(level="model_checking")
    tot_states = tot_trans = pruned = 0
    per, samples, caps = [], [], []
    other = {}
    t0 = time.time()
    for pl in plans:
        left = None if time_budget is None else max(5.0, time_budget - (time.time() - t0))
        r = hist.bfs(tuple(pl["cfg_ref"]), pl["alphabet"], pl["depth"], jobs, seed, checks=checks, rules=rules,
                     time_budget=left)
        for f in r["failures"]:
            f.replay["cfg_ref"] = list(pl["cfg_ref"])
            f.replay["checks"] = list(checks)
        res.failures.extend(r["failures"])
        tot_states += r["states"]
        tot_trans += r["transitions"]
        pruned += r["pruned_by_other_properties_rules"]
        for k, v in r["other_rules_seen"].items():
            other[k] = other.get(k, 0) + v
        per.append({"plan": pl.get("label"), "depth_completed": r["max_depth_completed"], "depth_planned": pl["depth"],
                    "levels": r["per_level"], "alphabet": r["alphabet_size"]})
        samples.extend(r["samples"][:2])
        caps.extend(r["caps_hit"])
    res.coverage = {
        "states": tot_states,
        "transitions": tot_trans,
        "traces_validated_against_impl": tot_trans,
        "samples": samples[:6],
        "bound": per,
        "caps_hit": caps,
        "exhaustive": not caps,
        "histories_pruned_by_other_properties_rules": pruned,
        "other_rules_seen": other,
        "explanation": "explicit-state BFS over operation histories; every transition is an execution of the real server "
                       "(history replayed on a fresh world under the virtual loop); states are canonical forms of implementation "
                       "internals + disk + DB + replayed session views; a history whose last step raised any oracle failure is "
                       "not extended",
    }
    res.assumptions = assumptions
    return res


def replay_h(prop_prefix: str, rec):
    rp = rec["replay"]
    fails = hist.replay_history(tuple(rp["cfg_ref"]), rp["history"], checks=tuple(rp.get("checks") or ()))
    return [f for f in fails if f.rule.startswith(prop_prefix)]
