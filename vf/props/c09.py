"""
C09 -- mailbox names cannot reach outside the user's mail directory.

Engine E on a jail: jail/mail is the user's MH root, jail/decoy/secret is a neighbour's MH
folder holding messages with a unique token, jail/outside.txt a canary.  Every path of <=k
components over {.., ., '', a, inbox, decoy, secret} with prefixes {'', '/', '//'}, in atom /
quoted / literal encoding, is put in every mailbox-name position (SELECT, EXAMINE, STATUS,
SUBSCRIBE, UNSUBSCRIBE, APPEND, COPY, MOVE, CREATE, RENAME source and destination, DELETE,
LIST/LSUB reference and pattern with wildcards spliced in).  Oracle: everything in the jail
outside jail/mail is byte-identical afterwards; no response carries the decoy's content,
message count or folder names; a name whose independent resolution leaves the root is
answered NO/BAD; no database row names a path outside.
"""

from __future__ import annotations

import itertools
import os

from .. import msgs, templates
from ..runner import Failure, Result, pmap, seeded_order
from ..sessions import imap_literal
from ..world import DECOY_TOKEN, World, snapshot_tree

PROP = "C09"
COMPONENTS = ["..", ".", "", "a", "inbox", "decoy", "secret"]
PREFIXES = ["", "/", "//"]


def template():
    def setup(w, s):
        templates.must_ok(s, "CREATE a")
        templates.append(s, "INBOX", "m1", "", n=1)
        templates.append(s, "a", "a1", "", n=2)

    return templates.build("c09", setup)


def names(kmax):
    out = []
    for k in range(1, kmax + 1):
        for comb in itertools.product(COMPONENTS, repeat=k):
            body = "/".join(comb)
            for p in PREFIXES:
                n = p + body
                if n and n not in out:
                    out.append(n)
    return out


# names built from the absolute path of the jail itself ({J} is substituted per world): behind the
# namespace prefix they are ordinary (deep) relative names inside the root, but any code path that
# forgets to strip the prefix lands on the real absolute path next to the mail root
ABS_NAMES = ["{J}/decoy/secret", "{J}/decoy", "/{J}/decoy/secret", "{J}/outside.txt", "{J}", "{J}/mail/a", "{J}/mail/../decoy/secret",
             "{J}/decoy/secret/../secret"]


# the sibling jail/mail-old (same prefix as jail/mail)
SIBLING_NAMES = ["../mail-old/secret", "../mail-old", "inbox/../../mail-old/secret", "/../mail-old/secret", "a/../../mail-old/secret/../secret",
                 "../mail-old/new"]


# the same with white space / control characters around the `..` (or the whole name): as written these are ordinary names inside
# the root (a folder called ` ..`); code that tidies a name (strip) after having checked it turns them into the sibling's path
def _ws_names():
    out = []
    for n in ("../mail-old/secret", "../mail-old/new", "/../mail-old/secret", "a/../../mail-old/secret"):
        for ws in (" ", "\t", "\x0b"):
            lead = "/" if n.startswith("/") else ""
            body = n[len(lead):]
            out += [lead + ws + body, lead + body + ws, lead + ws + body + ws]
    return [n for i, n in enumerate(out) if n not in out[:i]]


WS_NAMES = _ws_names()


def tidied(name: str) -> str:
    lead = "/" if name.startswith("/") else ""
    return lead + name[len(lead):].strip()


def escapes(name: str) -> bool:
    """Independent resolution: one leading '/' is the namespace prefix; the rest is a relative
    path under the root.  Anything that normalises to the root itself, above it, or is
    absolute, is outside."""
    n = name[1:] if name.startswith("/") else name
    if n.startswith("/"):
        return True
    root = "/R"
    full = os.path.normpath(os.path.join(root, n))
    return not full.startswith(root + "/")


def escapes_any_reading(name: str) -> bool:
    """Escapes under both orders of 'strip the namespace prefix' and 'normalise': such a name
    has no reading that stays inside and must be refused.  (`/../x` normalises to `/x`, i.e.
    mailbox `x` inside the root, if the path is normalised first.)"""
    n2 = os.path.normpath(name) if name else name
    if n2.startswith("//"):
        n2 = n2[1:]
    return escapes(name) and escapes(n2)


def enc(name: str, how: str) -> bytes:
    b = name.encode("latin-1")
    if how == "quoted":
        return b'"' + b.replace(b"\\", b"\\\\").replace(b'"', b'\\"') + b'"'
    if how == "literal":
        return imap_literal(b)
    return b  # atom (only used when the name is a valid atom)


def is_atom(name: str) -> bool:
    return bool(name) and all(c not in ' (){%*"\\]' and 32 < ord(c) < 127 for c in name)


def commands(nm: bytes):
    m1 = msgs.make("x1")
    return [
        ("select", b"SELECT " + nm), ("fetch-after-select", b"FETCH 1:* (BODY.PEEK[])"), ("examine", b"EXAMINE " + nm),
        ("status", b"STATUS " + nm + b" (MESSAGES UIDNEXT)"), ("subscribe", b"SUBSCRIBE " + nm), ("lsub", b'LSUB "" "*"'),
        ("unsubscribe", b"UNSUBSCRIBE " + nm),
        ("list-ref", b"LIST " + nm + b' "*"'), ("list-ref%", b"LIST " + nm + b' "%"'),
        ("select-inbox", b"SELECT INBOX"), ("copy", b"COPY 1 " + nm), ("append", b"APPEND " + nm + b" () " + imap_literal(m1)),
        ("create", b"CREATE " + nm), ("list-all", b'LIST "" "*"'), ("rename-to", b"RENAME a " + nm), ("rename-from", b"RENAME " + nm + b" zz"),
        ("move", b"MOVE 1 " + nm), ("delete", b"DELETE " + nm), ("list-all2", b'LIST "" "*"'),
    ]


def commands_twin_first(nm: bytes):
    """Second order: the name's inside reading is created first, so that every later command finds a
    mailbox under the stripped name -- and must then keep using that reading, not the raw string."""
    m1 = msgs.make("x2")
    return [
        ("t-create", b"CREATE " + nm), ("t-append", b"APPEND " + nm + b" () " + imap_literal(m1)), ("t-select", b"SELECT " + nm),
        ("t-store", b"STORE 1:* +FLAGS (\\Deleted)"), ("t-close", b"CLOSE"), ("t-status", b"STATUS " + nm + b" (MESSAGES UIDNEXT)"),
        ("t-subscribe", b"SUBSCRIBE " + nm), ("t-unsubscribe", b"UNSUBSCRIBE " + nm), ("t-select-inbox", b"SELECT INBOX"),
        ("t-copy", b"COPY 1 " + nm), ("t-delete", b"DELETE " + nm), ("t-list", b'LIST "" "*"'),
        ("t-create2", b"CREATE " + nm), ("t-rename-from", b"RENAME " + nm + b" zz2"), ("t-list2", b'LIST "" "*"'),
    ]


def pattern_commands(name: str, how: str):
    out = []
    for pat in (name + "/*", name + "/%", name + "*", "*" if True else ""):
        p = enc(pat, "quoted")
        out.append(("list-pat", b'LIST "" ' + p))
        out.append(("lsub-pat", b'LSUB "" ' + p))
    return out


TWIN = [("decoy", "dec0y"), ("secret", "secr3t"), ("mail-old", "mail-0ld"), ("outside.txt", "0utside.txt")]


def twin_of(name: str) -> str | None:
    """The same name with every component that exists outside the mail root replaced by one of the same length that does not."""
    t = name
    for a, b in TWIN:
        t = t.replace(a, b)
    return t if t != name else None


def transcript_of(tmpl, name0: str, how: str):
    """Every response to the command list for this name, with the twin's spelling mapped back (so that an echoed name compares equal)."""
    w = World(tmpl)
    try:
        name = name0.replace("{J}", str(w.jail))
        w.start()
        s = w.connect("A")
        nm = enc(name, how)
        out = []
        for label, cmd in commands(nm) + pattern_commands(name, how) + commands_twin_first(nm):
            if s.task.done():
                s = w.connect("A2" + label)
            r, resps = s.do(cmd, horizon=10)
            raw = b"".join(x.raw for x in resps).replace(str(w.jail).encode(), b"{J}")
            for a, b in TWIN:
                raw = raw.replace(b.encode(), a.encode())
            out.append((label, raw))
        return out
    finally:
        w.close()


def work(unit):
    tmpl, cases = unit
    fails = []
    n_eval = 0
    outcomes = set()
    for name0, how in cases:
        # no response reveals the *existence* of anything outside: a name that leaves the root under every reading is answered the
        # same whether or not the outside path exists (differential: the same world, the same commands, a twin name of equal
        # length whose outside components do not exist)
        tw = twin_of(name0)
        if tw is not None and (escapes_any_reading(name0.replace("{J}", "/J")) or escapes_any_reading(tidied(name0))) and how != "atom":
            t1, t2 = transcript_of(tmpl, name0, how), transcript_of(tmpl, tw, how)
            n_eval += len(t1) + len(t2)
            for (label, a), (_l2, b) in zip(t1, t2):
                if a != b:
                    fails.append(Failure(PROP, "C09.existence-revealed", {"cmd": label, "shape": shape(name0), "enc": how},
                                         {"driver": "c09", "name": name0, "enc": how}, b[:200].decode("latin-1"), a[:200].decode("latin-1"),
                                         [f"existing outside path: {name0}", f"twin that does not exist: {tw}"]))
                    break
        w = World(tmpl)
        try:
            name = name0.replace("{J}", str(w.jail))
            w.start()
            before = snapshot_tree(w.jail)
            before = {k: v for k, v in before.items() if not k.startswith("mail/") and k != "mail/"}
            s = w.connect("A")
            esc = escapes(name)
            nm = enc(name, how)
            tr = []
            for label, cmd in commands(nm) + pattern_commands(name, how) + commands_twin_first(nm):
                if s.task.done():
                    s = w.connect("A2" + label)
                r, resps = s.do(cmd, horizon=10)
                n_eval += 1
                tr.append(f"C: {cmd[:80]!r} -> {r.typ if r else None}")
                outcomes.add((label, r.typ if r else None, esc))
                out = b"".join(x.raw for x in resps)

                def fail(rule, obs=None):
                    fails.append(Failure(PROP, rule, {"cmd": label, "shape": shape(name), "enc": how},
                                         {"driver": "c09", "name": name0, "enc": how}, None, obs, list(tr[-8:])))

                if DECOY_TOKEN.encode() in out:
                    fail("C09.content-leak", out[:200].decode("latin-1"))
                for x in resps:
                    if x.kind == "untagged" and x.typ in ("LIST", "LSUB") and len(x.data) >= 3:
                        ln = x.data[2]
                        ln = bytes(ln).decode("latin-1") if isinstance(ln, bytes) else str(ln)
                        if escapes(ln) or "secret" in ln or "decoy" in ln or "mail-old" in ln:
                            if os.path.isdir(os.path.join(str(w.maildir), ln.lstrip("/"))) and not escapes(ln):
                                continue  # a folder really created inside the root with that name
                            fail("C09.outside-name-listed", ln)
                    if x.kind == "untagged" and x.typ == "STATUS" and escapes_any_reading(name):
                        fail("C09.outside-status", x.raw[:120].decode("latin-1"))
                if escapes_any_reading(name) and r is not None and r.typ == "OK" and label in (
                        "select", "examine", "status", "subscribe", "unsubscribe", "copy", "append", "create", "rename-to",
                        "rename-from", "move", "delete", "t-create", "t-append", "t-select", "t-status", "t-subscribe", "t-unsubscribe",
                        "t-copy", "t-delete", "t-create2", "t-rename-from"):
                    fail("C09.outside-name-accepted", r.raw[:120].decode("latin-1"))
            w.loop.settle()
            after = snapshot_tree(w.jail)
            after = {k: v for k, v in after.items() if not k.startswith("mail/") and k != "mail/"}
            if after != before:
                diff = sorted(k for k in set(before) | set(after) if before.get(k) != after.get(k))
                fails.append(Failure(PROP, "C09.outside-modified", {"shape": shape(name), "enc": how, "what": [d.split("/")[0] for d in diff][:2]},
                                     {"driver": "c09", "name": name0, "enc": how}, None, diff[:6], list(tr)))
            for row in w.db_dump().get("mailboxes", []):
                if escapes(row.get("name") or "x"):
                    if (row.get("name") or "") == "":
                        continue
                    fails.append(Failure(PROP, "C09.db-row-outside", {"shape": shape(name), "enc": how},
                                         {"driver": "c09", "name": name0, "enc": how}, None, row.get("name"), list(tr)))
        finally:
            w.close()
    return fails, n_eval, outcomes


def shape(name: str) -> str:
    parts = set()
    if name.startswith("//"):
        parts.add("dslash")
    elif name.startswith("/"):
        parts.add("slash")
    comps = name.strip("/").split("/")
    if name.startswith("/") and len(comps) > 4:
        parts.add("abs-twin")
        comps = [c for c in comps if c in COMPONENTS]
    if ".." in comps:
        parts.add("dotdot")
    if "." in comps:
        parts.add("dot")
    if "" in comps:
        parts.add("empty")
    if "decoy" in comps or "secret" in comps:
        parts.add("decoy")
    parts.add("escapes" if escapes(name) else "inside")
    return "+".join(sorted(parts))


def run(tier, seed, jobs) -> Result:
    tmpl = template()
    kmax = 3 if tier == "quick" else 4
    cases = []
    for n in names(kmax):
        for how in ("quoted", "literal", "atom"):
            if how == "atom" and not is_atom(n):
                continue
            if tier == "quick" and how == "literal" and len(n.split("/")) > 2:
                continue
            cases.append((n, how))
    for n in ABS_NAMES + SIBLING_NAMES + WS_NAMES:
        for how in ("quoted", "literal"):
            if "\t" in n or "\x0b" in n:
                if how == "quoted" and tier == "quick":
                    continue
            cases.append((n, how))
    units = [(tmpl, cases[i : i + 12]) for i in range(0, len(cases), 12)]
    units = seeded_order(units, seed)
    res = Result(level="exploration")
    evals = 0
    outcomes = set()
    for f, e, oc in pmap(work, units, jobs):
        res.failures.extend(f)
        evals += e
        outcomes |= oc
    nesc = sum(1 for n, _ in cases if escapes(n))
    res.coverage = {
        "evaluations": evals,
        "distinct_nontrivial": nesc,
        "rule": "every path of <=%d components over %r with prefixes %r, per encoding; non-trivial = its independent resolution leaves the mail root; "
                "each (name, encoding) is run through 42 command positions (two orders: probing first / creating the inside reading first) in a fresh jail" % (kmax, COMPONENTS, PREFIXES),
        "names": len(cases),
        "absolute_twin_names": ABS_NAMES,
        "distinct_outcomes": len(outcomes),
        "exhaustive": True,
        "samples": ["../decoy/secret", "//decoy", "a/../../decoy/secret", "/..", "inbox/../.."],
    }
    res.assumptions = ["the neighbour is jail/decoy next to jail/mail; one leading '/' is the advertised namespace prefix and is not an escape by itself",
                       "start state: INBOX(1), a(1); commands per name run in a fixed order in one fresh world"]
    return res


def replay(rec):
    rp = rec["replay"]
    f, _, _ = work((template(), [(rp["name"], rp["enc"])]))
    return f
