"""
C19 -- the front-end relays exactly the commands the byte stream denotes.

Engine E on the real front-end (IMAPClient.start() on a fed StreamReader, MAX_INPUT_SIZE
lowered to 64 in the importing modules -- a configuration --, session forced into the
authenticated state with a capturing user-process connection): every sequence of <=2
(thorough <=3) items from {plain command, empty line, command with one / two synchronising
literals, the same non-synchronising, literal whose octets look like a command, literal ending
in "{5}", over-limit literal (sync / non-sync), over-limit accumulated command} under every
segmentation of each non-reactive stretch into reads with <=2 cut points (quick: the second
cut restricted to positions next to CR LF / literal boundaries).  The scripted client waits for
"+" / BAD where RFC 3501 says it must.  Oracle: a reference tokenizer -- same frames byte for
byte, "+" exactly for accepted synchronising literals, BAD for over-limit, in sync afterwards.
Response direction: response streams incl. literals with CRLF-free runs around the stream
limit must reach the client unmodified and in order.
"""

from __future__ import annotations

import itertools

from ..frontend import FrontWorld
from ..runner import Failure, Result, pmap, seeded_order

PROP = "C19"
LIMIT = 64
CLIENT_STREAM_LIMIT = 12  # production: 64 KiB stream buffer vs MAX_INPUT_SIZE 10 MiB -- the buffer is far smaller (here 12 vs 64: a long line comes in more than five pieces)

# item = list of parts; part = ("line", bytes) | ("lit", bytes, sync)
ITEMS = {
    "plain": [("line", b"t1 NOOP")],
    "plain2": [("line", b"t2 SELECT INBOX")],
    "empty": [("line", b"")],
    "sync1": [("line", b"t3 APPEND INBOX"), ("lit", b"hello", True), ("line", b"")],
    "sync2": [("line", b"t4 RENAME"), ("lit", b"ab", True), ("line", b""), ("lit", b"cd", True), ("line", b"")],
    "nonsync1": [("line", b"t5 APPEND INBOX"), ("lit", b"hi\r\nyo", False), ("line", b"")],
    "looks-like-cmd": [("line", b"t6 APPEND x"), ("lit", b"t9 LOGOUT\r\n\r\n", True), ("line", b"")],
    "ends-in-brace": [("line", b"t7 SEARCH TEXT"), ("lit", b"abc{5}", False), ("line", b" SEEN")],
    # the command ends directly after a literal whose own last octets look like a literal declaration
    "brace-at-eol": [("line", b"td LOGIN joe"), ("lit", b"pw{9}", True), ("line", b"")],
    "brace-plus-at-eol": [("line", b"te APPEND INBOX"), ("lit", b"body {4+}", False), ("line", b"")],
    "big-sync": [("line", b"t8 APPEND INBOX"), ("lit", b"x" * 100, True), ("line", b"")],
    "big-nonsync": [("line", b"t9 APPEND INBOX"), ("lit", b"y" * 100, False), ("line", b"")],
    "big-nonsync-crlf": [("line", b"tc APPEND INBOX"), ("lit", b"q" * 50 + b"\r\nt0 LOGOUT\r\n" + b"q" * 40, False), ("line", b"")],
    "big-line": [("line", b"ta SEARCH " + b"OR SEEN " * 9 + b"ALL")],
    # longer than the connection's stream buffer, within the size limit: an ordinary command
    "long-line": [("line", b"tf SEARCH " + b"OR SEEN " * 5 + b"ALL")],
    "long-line-lit": [("line", b"tg SEARCH OR SEEN OR SEEN OR SEEN OR SEEN SUBJECT"), ("lit", b"hi", True), ("line", b"")],
    "big-accum": [("line", b"tb APPEND INBOX"), ("lit", b"z" * 40, False), ("line", b" "), ("lit", b"w" * 40, False), ("line", b"")],
}


def reference(items):
    """Expected frames, number of '+' and BADs, and the client script as stretches.
    A stretch = (bytes to send, what to wait for afterwards: None | 'plus-or-bad')."""
    frames, plus, bads = [], 0, 0
    script = []  # list of (bytes, wait) ; wait in (None, "cont")
    skip_ok = []  # per rejected non-sync: octets the server has to discard
    for name in items:
        parts = ITEMS[name]
        frame = b""
        size = 0
        rejected = False
        pending = b""
        i = 0
        while i < len(parts):
            p = parts[i]
            if p[0] == "line":
                nxt = parts[i + 1] if i + 1 < len(parts) else None
                if nxt is not None and nxt[0] == "lit":
                    n, sync = len(nxt[1]), nxt[2]
                    text = p[1] + (b" " if p[1] and not p[1].endswith(b" ") else b"") + (b"{%d}" % n if sync else b"{%d+}" % n)
                    pending += text + b"\r\n"
                    stripped = text.rstrip()
                    frame += stripped
                    size += len(stripped)
                    if n > LIMIT:
                        rejected = True
                        bads += 1
                        if sync:
                            script.append((pending, "cont"))  # client sees BAD instead of '+': abandons the command
                            pending = b""
                        else:
                            # the client has already sent the literal and the rest of the command
                            rest = nxt[1]
                            for q in parts[i + 2:]:
                                rest += (q[1] if q[0] == "line" else b"")
                            pending += rest + b"\r\n"
                            script.append((pending, None))
                            pending = b""
                        break
                    if sync:
                        plus += 1
                        script.append((pending, "cont"))
                        pending = b""
                    frame += b"\r\n" + nxt[1]
                    size += len(nxt[1]) + 2
                    pending += nxt[1]
                    i += 2
                    if size > LIMIT and not rejected:
                        rejected = True
                        bads += 1
                        rest = b""
                        for q in parts[i:]:
                            if q[0] == "line":
                                rest += q[1]
                            else:
                                rest += (b"{%d+}" % len(q[1])) + b"\r\n" + q[1]
                        pending += rest + b"\r\n"
                        script.append((pending, None))
                        pending = b""
                        break
                    continue
                else:
                    pending += p[1] + b"\r\n"
                    stripped = p[1].rstrip()
                    frame += stripped
                    size += len(stripped)
                    i += 1
            else:
                i += 1
        if pending:
            script.append((pending, None))
        if rejected:
            continue
        if frame == b"":
            bads += 1  # empty line: refused, nothing relayed
            continue
        if size > LIMIT:
            bads += 1
            continue
        frames.append(frame)
    return frames, plus, bads, script


def segmentations(n: int, full: bool, marks: list[int]):
    """All ways to cut a stretch of n octets with <=2 cut points.  quick: the second cut only
    at the 'interesting' positions."""
    yield ()
    for a in range(1, n):
        yield (a,)
    for a in range(1, n):
        for b in (range(a + 1, n) if full else [m for m in marks if a < m < n]):
            yield (a, b)


def interesting(data: bytes) -> list[int]:
    out = set()
    for i, ch in enumerate(data):
        if ch in b"\r\n{}":
            out.update((i, i + 1))
    return sorted(x for x in out if 0 < x < len(data))


def run_stream(items, cuts_per_stretch):
    """One execution.  Returns (frames relayed, n_plus, n_bad, closed, final_ok, transcript)."""
    fw = FrontWorld(max_input=LIMIT)
    try:
        s = fw.imap_client(limit=CLIENT_STREAM_LIMIT)
        # force the authenticated state with a capturing user-process connection
        out0 = s.line(b"a0 LOGIN alice alicepw")
        assert b"a0 OK" in out0, out0
        base_out = len(s.out())
        frames_ref, plus_ref, bads_ref, script = reference(items)
        for k, (data, wait) in enumerate(script):
            cuts = cuts_per_stretch.get(k, ())
            pos = 0
            n0 = len(s.out())
            for c in list(cuts) + [len(data)]:
                if c > pos:
                    s.feed(data[pos:c])
                    pos = c
            if wait == "cont":
                fw.loop.run_until(lambda: len(s.out()) > n0 or s.task.done(), horizon=fw.loop.time() + 5)
                fw.loop.settle()
        fw.loop.settle()
        closed_before_final = s.task.done() or s.writer.closed
        out_mid = s.out()[base_out:]
        fin = s.line(b"zz NOOP") if not closed_before_final else b""
        relayed = s.relayed()
        frames = []
        pos = 0
        bad_frame = False
        while pos < len(relayed):
            j = relayed.find(b"\n", pos)
            hdr = relayed[pos:j]
            if j < 0 or not (hdr.startswith(b"{") and hdr.endswith(b"}")):
                bad_frame = True
                break
            ln = int(hdr[1:-1])
            frames.append(relayed[j + 1 : j + 1 + ln])
            pos = j + 1 + ln
        return {"frames": frames, "plus": out_mid.count(b"+ "), "bad": out_mid.count(b"BAD"), "closed": closed_before_final,
                "bye": b"* BYE" in out_mid, "bad_frame": bad_frame, "client_out": out_mid[:300]}
    finally:
        fw.close()


def judge(items, res):
    frames_ref, plus_ref, bads_ref, _ = reference(items)
    want = frames_ref + [b"zz NOOP"]
    problems = []
    if res["bad_frame"]:
        problems.append(("C19.relay-framing", None, None))
    if res["closed"]:
        if not res["bye"]:
            problems.append(("C19.connection-dropped", "open or BYE", "closed without BYE"))
        # frames relayed before the close must be a prefix of the expected ones
        if res["frames"] != want[: len(res["frames"])]:
            problems.append(("C19.frames", want, res["frames"]))
        return problems
    if res["frames"] != want:
        if res["frames"][:-1] == want[:-1] and (not res["frames"] or res["frames"][-1] != b"zz NOOP"):
            problems.append(("C19.out-of-sync-afterwards", want[-1:], res["frames"][-1:]))
        else:
            problems.append(("C19.frames", want, res["frames"]))
    if res["plus"] != plus_ref:
        problems.append(("C19.continuations", plus_ref, res["plus"]))
    if res["bad"] != bads_ref:
        problems.append(("C19.bad-count", bads_ref, res["bad"]))
    return problems


def work(unit):
    fails, n = [], 0
    outcomes = set()
    for items, full in unit:
        _, _, _, script = reference(items)
        per_stretch = []
        for data, _w in script:
            per_stretch.append(list(segmentations(len(data), full, interesting(data))))
        # one stretch is segmented at a time (the others are sent whole)
        cases = [{}]
        for k, segs in enumerate(per_stretch):
            for cuts in segs:
                if cuts:
                    cases.append({k: cuts})
        # one more segmentation per stretch: it trickles in, in pieces shorter than the connection's stream buffer (a reader behind
        # flow control never has more than about one buffer's worth to look at)
        for k, (data, _w) in enumerate(script):
            if len(data) > CLIENT_STREAM_LIMIT:
                cases.append({k: tuple(range(CLIENT_STREAM_LIMIT - 2, len(data), CLIENT_STREAM_LIMIT - 2))})
        for cuts in cases:
            res = run_stream(items, cuts)
            n += 1
            probs = judge(items, res)
            outcomes.add((tuple(items), res["plus"], res["bad"], res["closed"]))
            for rule, exp, obs in probs:
                fails.append(Failure(PROP, rule, {"items": "+".join(items), "segmented": bool(cuts)},
                                     {"driver": "c19", "items": list(items), "cuts": {str(k): list(v) for k, v in cuts.items()}},
                                     [x.decode("latin-1") for x in exp] if isinstance(exp, list) else exp,
                                     [x.decode("latin-1") for x in obs] if isinstance(obs, list) else obs,
                                     [res["client_out"].decode("latin-1")]))
                break
    return fails, n, outcomes


RESP_LIMIT = 131_072


def work_responses(_unit):
    """User-process -> client direction."""
    fails, n = [], 0
    streams = []
    for run in (1, 100, RESP_LIMIT - 1, RESP_LIMIT, RESP_LIMIT + 1, RESP_LIMIT + 100):
        body = b"A" * run + b"\r\nsecond line\r\n"
        streams.append((f"run{run}", b"* 1 FETCH (BODY[] {%d}\r\n" % len(body) + body + b")\r\nx1 OK done\r\n"))
    streams.append(("many-small", b"".join(b"* %d EXISTS\r\n" % i for i in range(50)) + b"x2 OK\r\n"))
    streams.append(("literal-with-tagged-looking-lines", b"* 1 FETCH (BODY[] {14}\r\nx9 OK fake\r\n\r\n)\r\nx3 OK\r\n"))
    for name, data in streams:
        for chunk in (len(data), 1000, 7):
            fw = FrontWorld(max_input=LIMIT)
            try:
                s = fw.imap_client()
                s.line(b"a0 LOGIN alice alicepw")
                base = len(s.out())
                for i in range(0, len(data), chunk):
                    s.intf.reader.feed_data(data[i : i + chunk])
                    if chunk != 7 or i % 700 == 0:
                        fw.loop.settle()
                fw.loop.settle()
                got = s.out()[base:]
                n += 1
                if got != data:
                    fails.append(Failure(PROP, "C19.response-modified", {"stream": name.rstrip("0123456789") if name.startswith("run") else name,
                                                                        "over_limit": name.startswith("run") and int(name[3:]) >= RESP_LIMIT,
                                                                        "closed": s.writer.closed},
                                         {"driver": "c19-resp", "stream": name, "chunk": chunk}, len(data), len(got)))
            finally:
                fw.close()
    # both directions at once: the client pipelines a command with a synchronising literal while the response to its previous
    # command is still being relayed; the continuation request may come before, after or between responses, never inside one
    resp = b"* 1 FETCH (BODY[] {20}\r\nline one\r\nline two\r\n)\r\nx1 OK done\r\n"
    for cut in range(1, len(resp)):
        fw = FrontWorld(max_input=LIMIT)
        try:
            s = fw.imap_client()
            s.line(b"a0 LOGIN alice alicepw")
            base = len(s.out())
            s.intf.reader.feed_data(resp[:cut])
            fw.loop.settle()
            s.feed(b"t2 APPEND INBOX {5}\r\n")
            fw.loop.settle()
            s.intf.reader.feed_data(resp[cut:])
            fw.loop.settle()
            got = s.out()[base:]
            n += 1
            plus = b"+ Ready for more input\r\n"
            where = got.find(b"+ ")
            rest = got.replace(plus, b"", 1) if plus in got else got
            # legal places for the continuation line: the response boundaries (before the FETCH, between FETCH and tagged line, after)
            legal = [len(b""), resp.index(b"x1 OK"), len(resp)]
            if rest != resp or (where >= 0 and where not in legal):
                fails.append(Failure(PROP, "C19.continuation-inside-response", {"inside": "literal" if 24 < where < 46 else "line"},
                                     {"driver": "c19-resp", "stream": "pipelined", "cut": cut}, "'+' at a response boundary", f"'+' at offset {where} of the relayed response"))
        finally:
            fw.close()
    return fails, n, set()


def run(tier, seed, jobs) -> Result:
    res = Result(level="exploration")
    names = list(ITEMS)
    seqs = [(a,) for a in names] + list(itertools.product(names, repeat=2))
    if tier != "quick":
        seqs += [s for s in itertools.product(names, repeat=3) if len(set(s)) == 3][::7]
    full = tier != "quick"
    units = [[(s, full and len(s) <= 2)] for s in seqs]  # (three-item sequences: second cut next to CR/LF/braces only)
    n = 0
    outcomes = set()
    for f, k, oc in pmap(work, seeded_order(units, seed), jobs, chunksize=2):
        res.failures.extend(f)
        n += k
        outcomes |= oc
    f, k, _ = work_responses(None)
    res.failures.extend(f)
    n += k
    res.coverage = {
        "evaluations": n, "distinct_nontrivial": len(seqs) + len(outcomes),
        "rule": "every sequence of <=%d items from the %d-item menu x every segmentation of one stretch with <=2 cut points (%s); distinct = item sequences + distinct "
                "(sequence, '+' count, BAD count, closed) outcomes" % (2 if tier == "quick" else 3, len(ITEMS), "all positions for sequences of <=2 items, else second cut next to CR/LF/braces" if full else "second cut next to CR/LF/braces"),
        "sequences": len(seqs), "distinct_outcomes": len(outcomes), "exhaustive": True,
        "samples": [list(seqs[3]), list(seqs[40]), list(seqs[-1])],
    }
    res.assumptions = ["MAX_INPUT_SIZE lowered to 64 octets in asimap.server / asimap.user_server (configuration constant) so that over-limit cases are small",
                       "one stretch of the stream is segmented at a time; the scripted client waits for '+' or BAD after a synchronising literal announcement",
                       "the session is authenticated by a real LOGIN; the user-process connection is a capturing stub (no sockets, no TLS)",
                       "trailing white space of a command line is not significant (the front-end strips it)"]
    return res


def replay(rec):
    rp = rec["replay"]
    if rp["driver"] == "c19-resp":
        return work_responses(None)[0]
    items = tuple(rp["items"])
    cuts = {int(k): tuple(v) for k, v in rp["cuts"].items()}
    res = run_stream(items, cuts)
    out = []
    for rule, exp, obs in judge(items, res):
        out.append(Failure(PROP, rule, {}, rp, str(exp), str(obs), [res["client_out"].decode("latin-1")]))
    return out
