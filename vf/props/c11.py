"""
C11 -- a crash at any instant loses nothing acknowledged and never rebinds a UID.

Engine K (vf.explore.crash): each representative history is run once on the real server with
a crash point before and after every database operation and every folder mutation; every
distinct on-disk state is booted with the real start-up path (IMAPUserServer.run():
migrations, find_all_folders, check_all_folders) and interrogated through the protocol.
"""

from __future__ import annotations

from ..explore import crash
from ..runner import Result, pmap, seeded_order

PROP = "C11"


def cfg(kind="basic"):
    from .common import cfg_basic

    if kind == "empty":
        return {"prop": PROP, "name": "c11-empty", "template": None, "init": {"INBOX": []}, "mode": "run", "driver": "k",
                "crash_from_boot": True, "loopopts": {}}
    c = cfg_basic(PROP, 3, others=("a", "a/b"), other_msgs=1, name="c11-basic")
    c["pack_limit"] = 3
    c["driver"] = "k"
    return c


A = "A"
SEL = {"s": A, "op": "select", "m": "INBOX"}
# the client learns every (UIDVALIDITY, UID) -> message binding of the mailbox
REVEAL = {"s": A, "op": "fetch", "set": "1:*", "items": "(UID BODY.PEEK[HEADER.FIELDS (SUBJECT)])", "uid": True}
HISTORIES = {
    "first-startup": ("empty", [{"s": A, "op": "append", "m": "INBOX"}]),
    "append2": ("basic", [{"s": A, "op": "append", "m": "INBOX", "flags": "\\Seen kw"}, {"s": A, "op": "append", "m": "a"}]),
    "store": ("basic", [SEL, {"s": A, "op": "store", "set": "2", "mode": "+", "flags": "\\Flagged kw"},
                        {"s": A, "op": "store", "set": "1:*", "mode": "=", "flags": "\\Seen"}]),
    "expunge-middle": ("basic", [SEL, {"s": A, "op": "store", "set": "2", "mode": "+", "flags": "\\Deleted"}, {"s": A, "op": "expunge"}]),
    "expunge-last-append": ("basic", [SEL, {"s": A, "op": "del", "set": "*"}, {"s": A, "op": "append", "m": "INBOX"}]),
    # a mailbox emptied completely (the recovery of a folder that "shrank" to nothing), then used again
    "expunge-all-append": ("basic", [SEL, REVEAL, {"s": A, "op": "store", "set": "1:*", "mode": "+", "flags": "\\Deleted"}, {"s": A, "op": "expunge"},
                                     {"s": A, "op": "append", "m": "INBOX"}]),
    "move-all": ("basic", [SEL, REVEAL, {"s": A, "op": "move", "set": "1:*", "dst": "a"}, {"s": A, "op": "append", "m": "INBOX"}]),
    "close-all": ("basic", [SEL, REVEAL, {"s": A, "op": "store", "set": "1:*", "mode": "+", "flags": "\\Deleted"}, {"s": A, "op": "close"},
                            {"s": A, "op": "select", "m": "INBOX"}]),
    "copy": ("basic", [SEL, {"s": A, "op": "copy", "set": "1:2", "dst": "a"}]),
    "move": ("basic", [SEL, {"s": A, "op": "move", "set": "1:2", "dst": "a"}]),
    "copy-self": ("basic", [SEL, {"s": A, "op": "copy", "set": "1:*", "dst": "INBOX"}]),
    "namespace": ("basic", [{"s": A, "op": "create", "m": "x/y"}, {"s": A, "op": "rename", "m": "a", "to": "c"},
                            {"s": A, "op": "delete", "m": "x/y"}, {"s": A, "op": "delete", "m": "c"}]),
    "rename-inbox": ("basic", [SEL, {"s": A, "op": "rename", "m": "INBOX", "to": "old"}]),
    # (the messages carry acknowledged flags when the mailbox is renamed / moved)
    "flags-then-rename-inbox": ("basic", [SEL, {"s": A, "op": "store", "set": "1:*", "mode": "+", "flags": "\\Flagged kw"},
                                          {"s": A, "op": "rename", "m": "INBOX", "to": "old"}]),
    # every message leaves at once (no EXPUNGE of single messages): new messages then reuse the numbers of flagged ones
    "flags-rename-inbox-append": ("basic", [SEL, {"s": A, "op": "store", "set": "1:*", "mode": "+", "flags": "\\Flagged kw"},
                                            {"s": A, "op": "rename", "m": "INBOX", "to": "old"}, {"s": A, "op": "append", "m": "INBOX"},
                                            {"s": A, "op": "append", "m": "INBOX", "flags": "\\Seen"}]),
    "flags-delete-parent-create-append": ("basic", [{"s": A, "op": "select", "m": "a"}, {"s": A, "op": "store", "set": "1", "mode": "+", "flags": "\\Flagged \\Deleted kw"},
                                                    {"s": A, "op": "select", "m": "INBOX"}, {"s": A, "op": "delete", "m": "a"}, {"s": A, "op": "create", "m": "a"},
                                                    {"s": A, "op": "append", "m": "a"}]),
    "flags-then-rename": ("basic", [{"s": A, "op": "select", "m": "a"}, {"s": A, "op": "store", "set": "1", "mode": "+", "flags": "\\Answered kw"},
                                    {"s": A, "op": "rename", "m": "a", "to": "c"}]),
    "flags-then-move": ("basic", [SEL, {"s": A, "op": "store", "set": "1:*", "mode": "+", "flags": "\\Flagged kw"}, {"s": A, "op": "move", "set": "1:2", "dst": "a"}]),
    "pack": ("basic", [SEL, {"s": A, "op": "del", "set": "1"}, {"s": A, "op": "append", "m": "INBOX"}, {"s": "env", "op": "poll", "dt": 21.0}]),
    "delivery-noop": ("basic", [SEL, {"s": "env", "op": "deliver", "m": "INBOX", "n": 2}, {"s": A, "op": "noop"}]),
    "delivery-inactive": ("basic", [{"s": "env", "op": "deliver", "m": "a"}, {"s": "env", "op": "poll", "dt": 30.0}, {"s": A, "op": "select", "m": "a"}]),
    "subscribe-close": ("basic", [SEL, {"s": A, "op": "subscribe", "m": "a"}, {"s": A, "op": "store", "set": "1", "mode": "+", "flags": "\\Deleted"},
                                  {"s": A, "op": "close"}]),
}

ALPHA = [
    SEL,
    {"s": A, "op": "append", "m": "INBOX"},
    {"s": A, "op": "store", "set": "1", "mode": "+", "flags": "\\Deleted"},
    {"s": A, "op": "store", "set": "*", "mode": "+", "flags": "\\Seen kw"},
    {"s": A, "op": "store", "set": "2", "mode": "+", "flags": "\\Deleted"},  # (a flag another message may already carry)
    {"s": A, "op": "expunge"},
    {"s": A, "op": "copy", "set": "1:*", "dst": "a"},
    {"s": A, "op": "move", "set": "1", "dst": "a"},
    {"s": A, "op": "rename", "m": "a", "to": "c"},
    {"s": "env", "op": "deliver", "m": "INBOX"},
]


def units(tier):
    us = [(["vf.props.c11", "cfg", [k]], h) for k, h in HISTORIES.values()]
    import itertools

    if tier == "quick":
        # every pair of commands from the alphabet, after the client has learnt the UIDs
        for combo in itertools.product(ALPHA[1:], repeat=2):
            us.append((["vf.props.c11", "cfg", ["basic"]], [SEL, REVEAL] + list(combo)))
    else:
        for n in (2, 3):
            for combo in itertools.product(ALPHA[1:], repeat=n):
                us.append((["vf.props.c11", "cfg", ["basic"]], [SEL, REVEAL] + list(combo)))
    return us


def run(tier, seed, jobs) -> Result:
    cfg("basic")
    us = seeded_order(units(tier), seed)
    res = Result(level="fault_enumeration")
    pts = booted = 0
    labels = {}
    samples = []
    for r in pmap(crash.crash_history, us, jobs):
        pts += r["points"]
        booted += r["booted"]
        res.failures.extend(r["fails"])
        for k, v in r["labels"].items():
            labels[k] = labels.get(k, 0) + v
        if len(samples) < 3:
            samples.append({"history": r["history"], "crash_points": r["points"], "distinct_states_booted": r["booted"]})
    # the process dies after commands of two sessions overlapped: UIDVALIDITY counter (two mailboxes created at the same time,
    # under every schedule with <=1 (thorough 2) deviations, kill, restart, delete + create again)
    from ..explore import sched

    ck = {"name": "create|create;kill;recreate", "cfg_ref": ["vf.props.c11", "cfg", ["basic"]], "prelude": [{"s": "A", "op": "select", "m": "INBOX"}], "loopopts": {"preempt_timers": False},
          "concurrent": {"A": [{"s": "A", "op": "create", "m": "n1"}], "B": [{"s": "B", "op": "create", "m": "n2"}]},
          "epilogue_recreate": {"names": ["n1", "n2"], "how": "kill"}}
    r = sched.explore(ck, 1 if tier == "quick" else 2, jobs, seed, max_exec=30000)
    for f in r["failures"]:
        if f.rule.startswith("C02.uidvalidity"):
            f.rule = "C11.uidvalidity-reused-after-crash"
            res.failures.append(f)
    pts += r["executions"]
    booted += r["executions"]
    res.coverage = {
        "schedule_part": [{"scenario": ck["name"], "executions": r["executions"], "bound": r["bound_completed"], "cap": r["cap"]}],
        "evaluations": pts,
        "distinct_nontrivial": booted,
        "rule": "one crash point before and after every DB operation and every audited folder mutation of every step of each history; "
                "distinct = distinct (on-disk tree hash, acknowledged?, step) -- each distinct snapshot is booted with the real start-up path",
        "histories": len(us),
        "point_kinds": labels,
        "samples": samples,
        "exhaustive": True,
    }
    res.assumptions = [
        "process death at Python-call / DB-operation granularity (kill -9): unflushed Python buffers and uncommitted SQLite pages are lost, OS-level writes are kept; "
        "not power loss, no torn sectors; SQLite's own atomicity (journal) is trusted",
        "histories run under the default schedule, one session; plus one two-session scenario (CREATE | CREATE) under every schedule with <=1 (thorough 2) deviations, "
        "killed afterwards, restarted, each name deleted and created again: its UIDVALIDITY must be larger than the one a client saw before",
        "acknowledged = tagged OK emitted before the crash point; the in-flight command may or may not have taken effect",
    ]
    return res


def replay(rec):
    rp = rec["replay"]
    if rp.get("driver") == "s":
        from ..explore import sched

        _p, _n, _sig, fails, _st = sched.run_one((rp["scenario"], rp["choices"]))
        out = []
        for f in fails:
            if f.rule.startswith("C02.uidvalidity"):
                f.rule = "C11.uidvalidity-reused-after-crash"
                out.append(f)
        return out
    r = crash.crash_history((rp["cfg_ref"], rp["history"]))
    return [f for f in r["fails"] if f.replay.get("point") == rp.get("point")] or r["fails"]
