"""
C02 -- UIDs strictly ascending and never reused; UIDNEXT / UIDVALIDITY honest.

Engine H over message-adding/removing and mailbox create/delete/rename commands, restarts,
external deliveries and pack opportunities (pack limits lowered through the documented class
attributes).  Oracles (vf.hdriver): the ledger (name, UIDVALIDITY, UID) -> content id is a
function over the whole history; UIDs ascend; every announced UIDNEXT exceeds every UID ever
assigned and never decreases; APPENDUID/COPYUID name the messages added; UIDVALIDITY constant
per incarnation and larger after DELETE+CREATE.
"""

from __future__ import annotations

PROP = "C02"
RULES = ("C02.",)


def cfg():
    from .common import cfg_basic

    c = cfg_basic(PROP, 2, others=("a", "a/b"), name="c02")
    c["pack_limit"] = 3
    c["pack_ratio"] = 0.8
    c["prelude"] = [{"s": "A", "op": "select", "m": "INBOX"}]
    return c


def alphabet(tier):
    A = "A"
    ev = [
        {"s": A, "op": "append", "m": "INBOX"},
        {"s": A, "op": "append", "m": "a"},
        {"s": A, "op": "copy", "set": "1", "dst": "a"},
        {"s": A, "op": "copy", "set": "1:*", "dst": "INBOX"},
        {"s": A, "op": "move", "set": "1", "dst": "a"},
        {"s": A, "op": "del", "set": "1"},
        {"s": A, "op": "del", "set": "*"},
        {"s": A, "op": "del", "set": "1:*"},
        {"s": A, "op": "select", "m": "INBOX"},
        {"s": A, "op": "select", "m": "a"},
        {"s": A, "op": "close"},
        {"s": "env", "op": "deliver", "m": "INBOX"},
        {"s": "env", "op": "deliver", "m": "INBOX", "n": 2},
        {"s": "env", "op": "deliver", "m": "a"},  # into a mailbox nobody has selected: found only by the next command that looks at it
        {"s": "env", "op": "poll", "dt": 21.0},
        {"s": "env", "op": "restart"},
        {"s": A, "op": "delete", "m": "a/b"},
        {"s": A, "op": "delete", "m": "a"},
        {"s": A, "op": "create", "m": "a"},
        {"s": A, "op": "create", "m": "a/b"},
        {"s": A, "op": "rename", "m": "a", "to": "c"},
        {"s": A, "op": "rename", "m": "INBOX", "to": "old"},
        {"s": A, "op": "rename", "m": "c", "to": "a"},
    ]
    return ev


def run(tier, seed, jobs):
    from .hcommon import run_h

    depth = 3 if tier == "quick" else 4
    A = "A"
    core = [{"s": A, "op": "del", "set": "*"}, {"s": A, "op": "del", "set": "1"}, {"s": A, "op": "append", "m": "INBOX"},
            {"s": "env", "op": "deliver", "m": "INBOX"}, {"s": "env", "op": "restart"}, {"s": "env", "op": "poll", "dt": 21.0}]
    # incarnations: every SELECT reveals the UIDVALIDITY of the name's current incarnation
    vv_core = [{"s": A, "op": "create", "m": "n"}, {"s": A, "op": "delete", "m": "n"}, {"s": A, "op": "select", "m": "n"},
               {"s": A, "op": "rename", "m": "n", "to": "m"}, {"s": A, "op": "select", "m": "m"}, {"s": "env", "op": "restart"},
               {"s": A, "op": "delete", "m": "m"}]
    res = run_h(PROP, RULES, [{"cfg_ref": ("vf.props.c02", "cfg", []), "alphabet": alphabet(tier), "depth": depth, "label": "INBOX(2),a,a/b"},
                               {"cfg_ref": ("vf.props.c02", "cfg", []), "alphabet": core, "depth": 5 if tier == "quick" else 6,
                                "label": "INBOX selected; core alphabet (messages go, come, pack, restart), deep"},
                               {"cfg_ref": ("vf.props.c02", "cfg", []), "alphabet": vv_core, "depth": 5 if tier == "quick" else 6,
                                "label": "UIDVALIDITY core alphabet (create, delete, re-create, rename, select, restart), deep"}],
                 ("C02",), jobs, seed,
                 ["one session; mailboxes INBOX(2 messages), a, a/b; pack threshold lowered to 3 messages / ratio 0.8 via the class attributes",
                  "restart = orderly shutdown() + real start-up sequence on the same directory",
                  "RENAME onto a formerly used name only requires (name, UIDVALIDITY) pairs to stay unique"],
                 time_budget=170 if tier == "quick" else 900)
    # schedule part: COPYUID names the messages actually created even when an MH agent drops a message into the
    # destination while COPY / MOVE write there (scenarios shared with C13)
    from ..explore import sched
    from . import c13

    per = []
    for sc in c13.s_scenarios():
        if not sc["name"].startswith("deliver-into-dst"):
            continue
        r = sched.explore(sc, 1 if tier == "quick" else 2, jobs, seed, max_exec=20000 if tier == "quick" else 80000)
        res.failures.extend(f for f in r["failures"] if f.rule.startswith("C02."))
        res.coverage["states"] += r["executions"]
        res.coverage["transitions"] += r["steps"]
        res.coverage["traces_validated_against_impl"] += r["executions"]
        per.append({"scenario": sc["name"], "executions": r["executions"], "bound": r["bound_completed"], "outcomes": r["distinct_outcomes"], "cap": r["cap"]})
    res.coverage["schedule_part"] = per
    res.assumptions.append("schedule part: one delivery into the destination at any scheduling point of COPY 1:2 / MOVE 1 (<=1, thorough <=2 deviations): "
                           "every COPYUID destination UID holds the source's content in the final store")
    return res


def replay(rec):
    rp = rec["replay"]
    if rp.get("driver") == "s":
        from ..explore import sched

        _p, _n, _sig, fails, _st = sched.run_one((rp["scenario"], rp["choices"]))
        return [f for f in fails if f.rule.startswith("C02.")]
    from .hcommon import replay_h

    return replay_h("C02.", rec)
