"""
C02 -- UIDs strictly ascending and never reused; UIDNEXT / UIDVALIDITY honest.

Engine H over message-adding/removing and mailbox create/delete/rename commands, restarts,
external deliveries and pack opportunities (pack limits lowered through the documented class
attributes).  Oracles (vf.hdriver): the ledger (name, UIDVALIDITY, UID) -> content id is a
function over the whole history; UIDs ascend; every announced UIDNEXT exceeds every UID ever
assigned and never decreases; APPENDUID/COPYUID name the messages added; UIDVALIDITY constant
per incarnation and larger after DELETE+CREATE.
"""

from __future__ import annotations

PROP = "C02"
RULES = ("C02.",)


def cfg():
    from .common import cfg_basic

    c = cfg_basic(PROP, 2, others=("a", "a/b"), name="c02")
    c["pack_limit"] = 3
    c["pack_ratio"] = 0.8
    c["prelude"] = [{"s": "A", "op": "select", "m": "INBOX"}]
    return c


def cfg_sub():
    """As cfg(), with the leaf a/b subscribed and its UIDVALIDITY revealed (a subscribed mailbox is kept as a place holder when it is deleted)."""
    c = cfg()
    c["name"] = "c02-sub"
    c["prelude"] = [{"s": "A", "op": "select", "m": "a/b"}, {"s": "A", "op": "subscribe", "m": "a/b"}, {"s": "A", "op": "select", "m": "INBOX"}]
    return c


# ------------------------------------------------------------------------------------------
# an MH tool removes messages behind the server's back (rmm): the "folder shrank" recovery
def shrink_cases(tier):
    import itertools

    ns = (3,) if tier == "quick" else (3, 4)
    for n in ns:
        for k in range(1, n + 1):
            for gone in itertools.combinations(range(1, n + 1), k):
                for observer in ("selected", "fresh", "status"):
                    for follow in ("append", "deliver", "copy-self", "none"):
                        yield (n, list(gone), observer, follow)


def work_shrink(unit):
    """Ledger-only oracle (the reference store is not consulted: the server may renumber the survivors): within one
    UIDVALIDITY no UID ever names two different messages, UIDs ascend with sequence number, every UIDNEXT told exceeds
    every UID seen and never decreases."""
    import os
    import re

    from .. import msgs, templates
    from ..respparse import fetch_items
    from ..runner import Failure
    from ..sessions import imap_literal
    from ..world import World

    fails, n_eval = [], 0
    SUBJ = "BODY.PEEK[HEADER.FIELDS (SUBJECT)]"
    for n, gone, observer, follow in unit:
        from .common import cfg_basic

        c = cfg_basic(PROP, n, others=("a",), name=f"c02-shrink-{n}")
        w = World(c["template"])
        rp = {"driver": "c02-shrink", "n": n, "gone": gone, "observer": observer, "follow": follow}
        ledger, told = {}, []
        tr = []

        def fail(rule, exp=None, obs=None):
            fails.append(Failure(PROP, rule, {"gone_top": n in gone, "observer": observer, "follow": follow}, rp, exp, obs, list(tr[-12:])))

        def look(s, tag):
            r, resps = s.do("NOOP")
            for cmd in ("SELECT INBOX", f"UID FETCH 1:* (UID {SUBJ})"):
                r, resps = s.do(cmd)
                tr.append(f"{tag} {cmd} -> {r.typ if r else None}")
                vv = None
                last_uid = 0
                for x in resps:
                    if x.kind == "untagged" and x.typ == "OK" and x.code:
                        k = str(x.code[0]).upper()
                        if k == "UIDVALIDITY":
                            vv = int(x.code[1])
                            look.vv = vv
                        if k == "UIDNEXT":
                            told.append((look.vv, int(x.code[1])))
                    if x.kind == "untagged" and x.typ == "FETCH" and not x.errors:
                        try:
                            it = fetch_items(x)
                        except Exception:
                            continue
                        if "UID" in it:
                            u = int(it["UID"])
                            cid = msgs.cid_of(bytes(it.get("BODY[HEADER.FIELDS (SUBJECT)]") or b""))
                            if u <= last_uid:
                                fail("C02.uids-not-ascending", None, u)
                            last_uid = u
                            key = (look.vv, u)
                            if cid and key in ledger and ledger[key] != cid:
                                fail("C02.uid-reused", {"uid": u, "cid": ledger[key]}, {"uid": u, "cid": cid})
                            if cid:
                                ledger[key] = cid

        look.vv = None
        try:
            w.start()
            a = w.connect("A")
            look(a, "A")
            folder = w.folder_path("inbox")
            for k in gone:
                os.remove(os.path.join(folder, str(k)))
            w.touch("inbox")
            tr.append(f"ENV: rmm {gone}")
            s = a
            if observer == "fresh":
                s = w.connect("B")
            if observer == "status":
                r, resps = a.do("STATUS INBOX (UIDNEXT MESSAGES)")
                for x in resps:
                    if x.kind == "untagged" and x.typ == "STATUS" and len(x.data) >= 2:
                        items = [str(v) for v in (x.data[1] or [])]
                        if "UIDNEXT" in items:
                            told.append((look.vv, int(items[items.index("UIDNEXT") + 1])))
            look(s, "S")
            if follow == "append":
                s.do(f"APPEND INBOX () {msgs.idate(50)} ".encode() + imap_literal(msgs.make("new1")))
            elif follow == "deliver":
                w.deliver("inbox", msgs.make("new1", crlf=False))
            elif follow == "copy-self":
                s.do("COPY 1 INBOX")
            look(s, "S")
            o = w.connect("O")
            look(o, "O")
            n_eval += 1
            by_vv = {}
            for vv, un in told:
                if vv is None:
                    continue
                if vv in by_vv and un < by_vv[vv]:
                    fail("C02.uidnext-decreased", by_vv[vv], un)
                by_vv[vv] = max(by_vv.get(vv, 0), un)
            for (vv, u) in ledger:
                if vv in by_vv and u >= by_vv[vv]:
                    fail("C02.uidnext-not-above-assigned", f"> {u}", by_vv[vv])
        finally:
            w.close()
    return fails, n_eval


def alphabet(tier):
    A = "A"
    ev = [
        {"s": A, "op": "append", "m": "INBOX"},
        {"s": A, "op": "append", "m": "a"},
        {"s": A, "op": "copy", "set": "1", "dst": "a"},
        {"s": A, "op": "copy", "set": "1:*", "dst": "INBOX"},
        {"s": A, "op": "move", "set": "1", "dst": "a"},
        {"s": A, "op": "del", "set": "1"},
        {"s": A, "op": "del", "set": "*"},
        {"s": A, "op": "del", "set": "1:*"},
        {"s": A, "op": "select", "m": "INBOX"},
        {"s": A, "op": "select", "m": "a"},
        {"s": A, "op": "close"},
        {"s": "env", "op": "deliver", "m": "INBOX"},
        {"s": "env", "op": "deliver", "m": "INBOX", "n": 2},
        {"s": "env", "op": "deliver", "m": "a"},  # into a mailbox nobody has selected: found only by the next command that looks at it
        {"s": "env", "op": "poll", "dt": 21.0},
        # a delivery within the second of the folder's mtime, then idle time (pack opportunity), then the mtime advances
        {"s": "env", "op": "latent", "m": "INBOX", "then": {"s": "env", "op": "poll", "dt": 21.0}},
        {"s": "env", "op": "restart"},
        {"s": A, "op": "delete", "m": "a/b"},
        {"s": A, "op": "delete", "m": "a"},
        {"s": A, "op": "create", "m": "a"},
        {"s": A, "op": "create", "m": "a/b"},
        {"s": A, "op": "rename", "m": "a", "to": "c"},
        {"s": A, "op": "rename", "m": "INBOX", "to": "old"},
        {"s": A, "op": "rename", "m": "c", "to": "a"},
    ]
    return ev


def run(tier, seed, jobs):
    from .hcommon import run_h

    depth = 3 if tier == "quick" else 4
    A = "A"
    core = [{"s": A, "op": "del", "set": "*"}, {"s": A, "op": "del", "set": "1"}, {"s": A, "op": "append", "m": "INBOX"},
            {"s": "env", "op": "deliver", "m": "INBOX"}, {"s": "env", "op": "restart"}, {"s": "env", "op": "poll", "dt": 21.0},
            {"s": "env", "op": "latent", "m": "INBOX", "then": {"s": "env", "op": "poll", "dt": 21.0}}]
    # incarnations: every SELECT reveals the UIDVALIDITY of the name's current incarnation
    vv_core = [{"s": A, "op": "create", "m": "n"}, {"s": A, "op": "delete", "m": "n"}, {"s": A, "op": "select", "m": "n"},
               {"s": A, "op": "rename", "m": "n", "to": "m"}, {"s": A, "op": "select", "m": "m"}, {"s": "env", "op": "restart"},
               {"s": A, "op": "delete", "m": "m"}]
    sub_core = [{"s": A, "op": "delete", "m": "a/b"}, {"s": A, "op": "create", "m": "a/b"}, {"s": A, "op": "select", "m": "a/b"},
                {"s": A, "op": "unsubscribe", "m": "a/b"}, {"s": A, "op": "subscribe", "m": "a/b"}, {"s": "env", "op": "restart"}]
    res = run_h(PROP, RULES, [{"cfg_ref": ("vf.props.c02", "cfg", []), "alphabet": alphabet(tier), "depth": depth, "label": "INBOX(2),a,a/b"},
                               {"cfg_ref": ("vf.props.c02", "cfg", []), "alphabet": core, "depth": 5 if tier == "quick" else 6,
                                "label": "INBOX selected; core alphabet (messages go, come, pack, restart), deep"},
                               {"cfg_ref": ("vf.props.c02", "cfg", []), "alphabet": vv_core, "depth": 5 if tier == "quick" else 6,
                                "label": "UIDVALIDITY core alphabet (create, delete, re-create, rename, select, restart), deep"}]
                               + [{"cfg_ref": ("vf.props.c02", "cfg_sub", []), "alphabet": sub_core, "depth": 4 if tier == "quick" else 6,
                                   "label": "leaf a/b subscribed and its UIDVALIDITY seen: delete (place holder while subscribed), create again, select, (un)subscribe"}],
                 ("C02",), jobs, seed,
                 ["one session; mailboxes INBOX(2 messages), a, a/b; pack threshold lowered to 3 messages / ratio 0.8 via the class attributes",
                  "restart = orderly shutdown() + real start-up sequence on the same directory",
                  "RENAME onto a formerly used name only requires (name, UIDVALIDITY) pairs to stay unique"],
                 time_budget=170 if tier == "quick" else 900)
    # schedule part: COPYUID names the messages actually created even when an MH agent drops a message into the
    # destination while COPY / MOVE write there (scenarios shared with C13)
    from ..explore import sched
    from . import c13

    per = []
    # two sessions create mailboxes at the same time: each incarnation needs its own UIDVALIDITY (checked by deleting one and
    # renaming the other onto its name)
    cc = {"name": "create|create", "cfg_ref": ["vf.props.c02", "cfg", []], "prelude": [], "loopopts": {"preempt_timers": False},
          "concurrent": {"A": [{"s": "A", "op": "create", "m": "n1"}], "B": [{"s": "B", "op": "create", "m": "n2"}]}, "epilogue_vv": {"a": "n1", "b": "n2"}}
    cs = {"name": "create|select-new-folder", "cfg_ref": ["vf.props.c02", "cfg", []], "prelude": [], "loopopts": {"preempt_timers": False},
          "concurrent": {"A": [{"s": "A", "op": "create", "m": "n1"}], "B": [{"s": "B", "op": "create", "m": "n2/k"}]}, "epilogue_vv": {"a": "n1", "b": "n2"}}
    cr = dict(cc, name="create|create;restart;recreate", epilogue_recreate={"names": ["n1", "n2"], "how": "restart"})
    del cr["epilogue_vv"]
    for sc in [cc, cs, cr] + c13.s_scenarios():
        if not (sc["name"].startswith("deliver-into-dst") or sc["name"].startswith("create|")):
            continue
        r = sched.explore(sc, 1 if tier == "quick" else 2, jobs, seed, max_exec=20000 if tier == "quick" else 80000)
        res.failures.extend(f for f in r["failures"] if f.rule.startswith("C02."))
        res.coverage["states"] += r["executions"]
        res.coverage["transitions"] += r["steps"]
        res.coverage["traces_validated_against_impl"] += r["executions"]
        per.append({"scenario": sc["name"], "executions": r["executions"], "bound": r["bound_completed"], "outcomes": r["distinct_outcomes"], "cap": r["cap"]})
    res.coverage["schedule_part"] = per
    # an MH tool removing messages behind the server's back
    from ..runner import pmap, seeded_order

    sc = list(shrink_cases(tier))
    nsh = 0
    for f, k in pmap(work_shrink, seeded_order([sc[i : i + 6] for i in range(0, len(sc), 6)], seed), jobs):
        res.failures.extend(f)
        nsh += k
    res.coverage["shrink_cases"] = nsh
    res.coverage["states"] += nsh
    res.coverage["transitions"] += nsh
    res.coverage["traces_validated_against_impl"] += nsh
    res.assumptions.append("shrink part: every non-empty subset of INBOX(3) (thorough also 4) removed from the MH folder by an external tool, seen by the selected session / "
                           "a fresh session / STATUS, followed by APPEND / delivery / COPY to self / nothing; ledger-only oracle (the server may renumber the survivors)")
    res.assumptions.append("schedule part: one delivery into the destination at any scheduling point of COPY 1:2 / MOVE 1 (<=1, thorough <=2 deviations): "
                           "every COPYUID destination UID holds the source's content in the final store; two CREATEs by two sessions under every schedule with "
                           "<=1 (thorough 2) deviations, then DELETE n1; RENAME n2 n1: the name's second incarnation has another UIDVALIDITY")
    return res


def replay(rec):
    rp = rec["replay"]
    if rp.get("driver") == "c02-shrink":
        return work_shrink([(rp["n"], rp["gone"], rp["observer"], rp["follow"])])[0]
    if rp.get("driver") == "s":
        from ..explore import sched

        _p, _n, _sig, fails, _st = sched.run_one((rp["scenario"], rp["choices"]))
        return [f for f in fails if f.rule.startswith("C02.")]
    from .hcommon import replay_h

    return replay_h("C02.", rec)
