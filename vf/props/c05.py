"""
C05 -- only the addressed messages are removed, copied or moved.

Engine E on the real server: every (mailbox size N, \\Deleted subset, command, message set)
of the matrix below is run from a freshly prepared state, in read-write and EXAMINE
sessions, and the complete observable store afterwards (content ids, flags, internal
dates per mailbox) is compared with the reference model; a command answered NO/BAD must
leave the folder tree and the database rows untouched.  A small H run composes two such
commands from two sessions.
"""

from __future__ import annotations

import itertools

from ..hdriver import HState
from ..runner import Failure, Result, pmap, seeded_order

PROP = "C05"
RULES = ("C05.", "C04.final-flags", "C03.internaldate", "C03.uid-content", "C02.copyuid", "C02.appenduid", "C02.uid-assignment")

SETS = ["1", "*", "1:*", "2:3", "1,1", "3,1", "2"]
UIDSETS = ["1", "2", "1:*", "3,1", "99", "2:99", "*"]


def cfg(n, deleted, gap=False):
    from .common import cfg_basic, cfg_diverged

    flags = {i: "\\Deleted" for i in deleted}
    if gap == "ns":
        # a destination that was deleted but is kept as a \\Noselect placeholder (it has a child): nothing may be put into it
        c = cfg_basic(PROP, n, others=("other", "p", "p/c"), flags=flags, other_msgs=1, name=f"c05-ns-{n}-{'-'.join(map(str, deleted))}")
        c["snapshot_refused"] = True
        c["prelude"] = [{"s": "B", "op": "delete", "m": "p"}]
        return c
    if gap:
        # non-initial state: n-2 old messages, the former top one expunged, two later arrivals (MH key != UID)
        c = cfg_diverged(PROP, n - 2, 2, flags=flags, other_msgs=1, name=f"c05-div-{n}-{'-'.join(map(str, deleted))}")
        c["snapshot_refused"] = True
        return c
    c = cfg_basic(PROP, n, others=("other",), flags=flags, other_msgs=1, name=f"c05-{n}-{'-'.join(map(str, deleted))}")
    c["snapshot_refused"] = True
    return c


def cases(tier):
    ns = [1, 2, 3] if tier == "quick" else [1, 2, 3, 4]
    for n in ns:
        for k in range(n + 1):
            for deleted in itertools.combinations(range(1, n + 1), k):
                for ro in (False, True):
                    sel = {"s": "A", "op": "examine" if ro else "select", "m": "INBOX"}
                    cmds = [{"s": "A", "op": "expunge"}, {"s": "A", "op": "close"}, {"s": "A", "op": "append", "m": "INBOX", "flags": "\\Seen kw"},
                            {"s": "A", "op": "append", "m": "nosuch"}]
                    for st in UIDSETS:
                        cmds.append({"s": "A", "op": "expunge", "uidset": st})
                    for st in SETS:
                        for uid in (False, True):
                            cmds.append({"s": "A", "op": "move", "set": st, "dst": "other", "uid": uid})
                            cmds.append({"s": "A", "op": "copy", "set": st, "dst": "other", "uid": uid})
                        cmds.append({"s": "A", "op": "copy", "set": st, "dst": "INBOX"})
                        cmds.append({"s": "A", "op": "copy", "set": st, "dst": "nosuch"})
                        cmds.append({"s": "A", "op": "move", "set": st, "dst": "nosuch"})
                    if ro:
                        cmds += [{"s": "A", "op": "store", "set": "1:*", "mode": "+", "flags": "\\Deleted"},
                                 {"s": "A", "op": "store", "set": "1", "mode": "=", "flags": "kw", "uid": True},
                                 {"s": "A", "op": "fetch", "set": "1", "items": "BODY[]"},
                                 {"s": "A", "op": "fetch", "set": "1:*", "items": "RFC822", "uid": True}]
                    for c in cmds:
                        yield (n, list(deleted), [sel, c])
    # the same commands from a state where MH keys and UIDs differ (positions 1..n hold UIDs 1..n-2, n, n+1)
    for n in ([3] if tier == "quick" else [3, 4]):
        top = n + 1
        usets = [str(n), str(top), f"{n}:{top}", f"{n - 1}:{n}", f"{n - 2},{top}", "1:*", str(n - 1), f"{top}:*"]
        for k in range(n + 1):
            for deleted in itertools.combinations(range(1, n + 1), k):
                sel = {"s": "A", "op": "select", "m": "INBOX"}
                cmds = [{"s": "A", "op": "expunge"}, {"s": "A", "op": "close"}]
                for st in usets:
                    cmds.append({"s": "A", "op": "expunge", "uidset": st})
                    cmds.append({"s": "A", "op": "move", "set": st, "dst": "other", "uid": True})
                    cmds.append({"s": "A", "op": "copy", "set": st, "dst": "other", "uid": True})
                for st in SETS:
                    cmds.append({"s": "A", "op": "move", "set": st, "dst": "other"})
                    cmds.append({"s": "A", "op": "copy", "set": st, "dst": "INBOX"})
                for c in cmds:
                    yield (n, list(deleted), [sel, c], True)
    # destinations that exist only as a \\Noselect placeholder
    for deleted in ([], [1]):
        sel = {"s": "A", "op": "select", "m": "INBOX"}
        for c in ([{"s": "A", "op": "append", "m": "p", "flags": "\\Flagged"}, {"s": "A", "op": "append", "m": "p"}]
                  + [{"s": "A", "op": op, "set": st, "dst": "p", "uid": uid} for op in ("copy", "move") for st in ("1", "1:*", "2") for uid in (False, True)]):
            yield (2, list(deleted), [sel, c], "ns")


def work(unit):
    fails, outcomes, n_eval = [], set(), 0
    for n, deleted, hist, *gap in unit:
        st = HState(cfg(n, deleted, gap[0] if gap else False))
        try:
            for ev in hist:
                st.apply(ev)
            st.observe(("C05",))
            n_eval += 1
            r = st.w.sessions["A"].responses
            tagged = [x.typ for x in r if x.kind == "tagged"]
            outcomes.add((hist[1]["op"], tagged[-3] if len(tagged) >= 3 else None))
            for f in st.failures:
                if any(f.rule.startswith(p) for p in RULES):
                    f.replay = {"driver": "c05", "n": n, "deleted": deleted, "history": hist, "gap": gap[0] if gap else False}
                    f.details = dict(f.details, op=hist[1]["op"], ro=hist[0]["op"] == "examine")
                    fails.append(f)
        finally:
            st.close()
    return fails, n_eval, outcomes


def alphabet(tier):
    ev = []
    for s in ("A", "B"):
        ev += [
            {"s": s, "op": "select", "m": "INBOX"},
            {"s": s, "op": "expunge"},
            {"s": s, "op": "close"},
            {"s": s, "op": "store", "set": "1", "mode": "+", "flags": "\\Deleted"},
            {"s": s, "op": "store", "set": "*", "mode": "+", "flags": "\\Deleted", "uid": True},
            {"s": s, "op": "move", "set": "1", "dst": "other"},
            {"s": s, "op": "copy", "set": "1:*", "dst": "other"},
            {"s": s, "op": "expunge", "uidset": "2"},
            {"s": s, "op": "append", "m": "INBOX"},
        ]
    ev += [{"s": "B", "op": "examine", "m": "INBOX"}, {"s": "B", "op": "select", "m": "other"},
           {"s": "B", "op": "move", "set": "1", "dst": "INBOX"}]
    return ev


def hcfg():
    return cfg(3, [2])


def hcfg_div():
    return cfg(4, [3], True)


def alphabet_div(tier):
    ev = [{"s": "A", "op": "select", "m": "INBOX"}, {"s": "B", "op": "select", "m": "INBOX"}]
    for s in ("A", "B"):
        ev += [
            {"s": s, "op": "expunge"},
            {"s": s, "op": "store", "set": "2", "mode": "+", "flags": "\\Deleted"},
            {"s": s, "op": "store", "set": "5", "mode": "+", "flags": "\\Deleted", "uid": True},
            {"s": s, "op": "expunge", "uidset": "4"},
            {"s": s, "op": "expunge", "uidset": "5"},
            {"s": s, "op": "move", "set": "4", "dst": "other", "uid": True},
        ]
    ev += [{"s": "A", "op": "deliver", "m": "INBOX"}, {"s": "A", "op": "noop"}]
    return ev


def run(tier, seed, jobs) -> Result:
    from .hcommon import run_h

    allc = list(cases(tier))
    # build templates in the parent
    seen = set()
    for n, deleted, _, *gap in allc:
        key = (n, tuple(deleted), gap[0] if gap else False)
        if key not in seen:
            seen.add(key)
            cfg(n, deleted, gap[0] if gap else False)
    units = [allc[i : i + 25] for i in range(0, len(allc), 25)]
    units = seeded_order(units, seed)
    fails, evals = [], 0
    outcomes = set()
    for f, e, oc in pmap(work, units, jobs):
        fails.extend(f)
        evals += e
        outcomes |= oc
    hres = run_h(PROP, RULES, [{"cfg_ref": ("vf.props.c05", "hcfg", []), "alphabet": alphabet(tier),
                                "depth": 3 if tier == "quick" else 4, "label": "two sessions, INBOX(3) one \\Deleted"},
                               {"cfg_ref": ("vf.props.c05", "hcfg_div", []), "alphabet": alphabet_div(tier),
                                "depth": 3 if tier == "quick" else 5, "label": "two sessions, INBOX(4) with MH keys != UIDs, one \\Deleted"}],
                 ("C05",), jobs, seed, [], time_budget=60 if tier == "quick" else 900)
    res = Result(level="exploration")
    res.failures = fails + hres.failures
    # schedule part: what a COPY / MOVE adds (content, flags) and what EXPUNGE / MOVE remove when the source changes under the
    # command -- the final store must be that of some sequential order of the documented steps (scenarios shared with C10)
    from ..explore import sched
    from . import c10

    by = {sc["name"]: sc for sc in c10.scenarios(tier)}
    per = []
    s_exec = s_steps = 0
    for name in ("copy|expunge", "move1|move3", "copyself|store12", "copy|copyback", "copy|fetchdates-in-dst"):
        sc = by[name]
        r = sched.explore(sc, (1 if name in ("move1|move3",) else 2) if tier == "quick" else 2, jobs, seed, max_exec=20000 if tier == "quick" else 80000)
        for f in r["failures"]:
            if f.rule in ("C10.not-linearizable", "C02.copyuid-names-other-message", "C02.copyuid-shape", "C03.internaldate-changed"):
                f.details = dict(f.details, was=f.rule)
                f.rule = "C05.concurrent-copy-move-expunge-not-sequential"
                res.failures.append(f)
        s_exec += r["executions"]
        s_steps += r["steps"]
        per.append({"scenario": name, "executions": r["executions"], "bound": r["bound_completed"], "outcomes": r["distinct_outcomes"], "cap": r["cap"]})
    res.coverage = {
        "evaluations": evals + hres.coverage["transitions"] + s_exec,
        "distinct_nontrivial": len(allc) + hres.coverage["states"] + s_exec,
        "schedule_part": per,
        "rule": "E: every (N, \\Deleted subset, rw/EXAMINE, command, set) cell of the matrix is a distinct case by construction "
                "(each changes or must not change the store); H: distinct canonical states reached by two-session histories",
        "matrix_cases": len(allc),
        "exhaustive": evals == len(allc) and hres.coverage["exhaustive"],
        "distinct_outcomes": len(outcomes),
        "h_part": {k: hres.coverage[k] for k in ("states", "transitions", "bound", "caps_hit")},
        "samples": [allc[0][2], allc[len(allc) // 2][2], allc[-1][2]],
        "diverged_key_uid_cases": sum(1 for c in allc if len(c) > 3),
    }
    res.assumptions = ["schedule part: COPY 1:2 other | EXPUNGE, MOVE | MOVE, COPY into the own mailbox | STORE, opposite-direction COPYs under every schedule with <=2 deviations "
                       "(MOVE | MOVE: 1 in the quick tier): final contents and flags of every mailbox equal some sequential order of the documented steps",
                       "second family of start states: INBOX whose former top message was expunged before two more arrived (MH key != UID), N=3 (quick) / 3,4 (thorough)",
                       "N<=3 (quick) / N<=4 (thorough); every \\Deleted subset; message sets from a fixed list of 7 shapes "
                       "(incl. duplicates and partly non-existent UIDs); destination `other` holds one message",
                       "'changes nothing' is judged on the maildir tree (names, sizes, hashes) and all database rows minus timestamp columns"]
    return res


def replay(rec):
    rp = rec["replay"]
    if rp.get("driver") == "c05":
        f, _, _ = work([(rp["n"], rp["deleted"], rp["history"]) + ((rp["gap"],) if rp.get("gap") else ())])
        return f
    if rp.get("driver") == "s":
        from ..explore import sched

        _p, _n, _sig, fails, _st = sched.run_one((rp["scenario"], rp["choices"]))
        out = []
        for f in fails:
            if f.rule in ("C10.not-linearizable", "C02.copyuid-names-other-message", "C02.copyuid-shape", "C03.internaldate-changed"):
                f.rule = "C05.concurrent-copy-move-expunge-not-sequential"
                out.append(f)
        return out
    from .hcommon import replay_h

    return replay_h("C0", rec)
