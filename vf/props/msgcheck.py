"""
Shared worker for C07 (well-formed output) and C16 (data-item consistency): every message
shape (vf.msggen: default message + <=k feature deviations) is stored by APPEND and dropped
raw by the MH delivery agent, then fetched with every data item; the equations of C16 and the
syntax/decoding rules of C07 are evaluated on the answers.
"""

from __future__ import annotations

import email.header
import email.utils
import os
import re

from .. import msggen
from ..respparse import Atom, fetch_items
from ..runner import Failure
from ..sessions import imap_literal
from ..world import World

FIX = "/repo/asimap/test/fixtures/mhdir"


def _unfold(v: bytes) -> bytes:
    return re.sub(rb"\r?\n([ \t])", rb"\1", v)


def split_headers(raw: bytes):
    """[(name, unfolded value)] of the top-level header, and the body."""
    m = re.search(rb"\r?\n\r?\n", raw)
    head, body = (raw, b"") if not m else (raw[: m.start()], raw[m.end():])
    if raw.startswith(b"\r\n") or raw.startswith(b"\n"):
        head, body = b"", raw.lstrip(b"\r\n") if False else raw[2 if raw.startswith(b"\r\n") else 1:]
    out = []
    cur = None
    for ln in re.split(rb"\r?\n", head):
        if ln[:1] in (b" ", b"\t") and cur is not None:
            cur[1] += b" " + ln.strip() if False else ln
            continue
        if b":" in ln:
            n, v = ln.split(b":", 1)
            cur = [n.strip(), v.strip()]
            out.append(cur)
    return [(n, re.sub(rb"\s+", b" ", _unfold(v)).strip()) for n, v in out], body


def norm_body(b: bytes) -> bytes:
    """Body content modulo line-ending convention, a final newline, and the empty padding lines
    a MIME generator may put before a boundary delimiter line."""
    b = b.replace(b"\r\n", b"\n").rstrip(b"\n")
    return re.sub(rb"\n+(\n--[^\n]+)", rb"\1", b)


def dec2047(b: bytes) -> str:
    s = b.decode("latin-1")
    try:
        parts = email.header.decode_header(s)
        out = ""
        for t, cs in parts:
            if isinstance(t, bytes):
                if cs in (None, "unknown-8bit"):
                    # raw 8-bit header text as stored by the email package
                    try:
                        out += t.decode("utf-8")
                    except UnicodeDecodeError:
                        out += t.decode("latin-1")
                    continue
                out += t.decode(cs or "latin-1", "replace")
            else:
                out += t
        return re.sub(r"\s+", " ", out).strip()
    except Exception:
        return s


def lit(it, key):
    v = it.get(key)
    return None if v is None else bytes(v)


class MsgWorld:
    def __init__(self):
        self.w = World(None)
        self.w.start()
        self.s = self.w.connect("A")
        for c in ("CREATE raw", "CREATE other"):
            self.s.do(c)
        self.fails: list[Failure] = []
        self.n = 0

    def fail(self, rule, details, replay, expected=None, observed=None):
        self.fails.append(Failure(rule.split(".")[0], rule, details, replay, _short(expected), _short(observed)))

    def close(self):
        self.w.close()

    def cmd(self, c, replay):
        s = self.s
        if s.task.done():
            self.s = s = self.w.connect(f"A{self.n}")
        self.n += 1
        n0 = len(s.syntax_errors)
        r, resps = s.do(c, horizon=20)
        for e in s.syntax_errors[n0:]:
            self.fail("C07.syntax", {"error": e.split(" at ")[0].split(" :: ")[0][:50], "feats": _fk(replay)}, replay, None, e[:300])
        if s.pending_garbage():
            self.fail("C07.incomplete-response", {"feats": _fk(replay)}, replay, None, s.pending_garbage()[:200])
            s.out = s.out[: s.parsed_upto]
        if r is None:
            self.fail("C06.no-tagged-reply", {"cmd": (c if isinstance(c, str) else c[:20].decode("latin-1")).split()[0], "feats": _fk(replay)}, replay, "tagged reply",
                      None)
        return r, resps


def _fk(replay):
    return "+".join(replay.get("feats", [])) or replay.get("fixture", "default")


def _short(x):
    if isinstance(x, bytes):
        return x[:300].decode("latin-1")
    if isinstance(x, (list, tuple)):
        return [_short(i) for i in list(x)[:12]]
    if isinstance(x, dict):
        return {k: _short(v) for k, v in list(x.items())[:12]}
    return x


def _around(a: bytes, b: bytes) -> bytes:
    """The part of `a` around the first octet where it differs from `b` (what a reader of the report needs to see)."""
    i = next((j for j, (x, y) in enumerate(zip(a, b)) if x != y), min(len(a), len(b)))
    return a[max(0, i - 20) : i + 40]


def check_message(mw: MsgWorld, mbox: str, uid: int, raw: bytes, spec: dict | None, replay: dict, appended: bool):
    r, _ = mw.cmd(f"EXAMINE {mbox}", replay)
    if r is None or r.typ != "OK":
        return
    items = "(RFC822.SIZE BODY.PEEK[] BODY.PEEK[HEADER] BODY.PEEK[TEXT] RFC822.HEADER)"
    got = []
    for rep in range(2):
        r, resps = mw.cmd(f"UID FETCH {uid} {items}", replay)
        it = None
        for x in resps:
            if x.kind == "untagged" and x.typ == "FETCH":
                try:
                    d = fetch_items(x)
                except Exception:
                    continue
                if "BODY[]" in d:
                    it = d
        if r is None or r.typ != "OK" or it is None:
            mw.fail("C16.fetch-failed", {"feats": _fk(replay), "appended": appended}, replay, "OK with data", str(r))
            return
        got.append(it)
    a, b = got
    full, hdr, txt = lit(a, "BODY[]"), lit(a, "BODY[HEADER]"), lit(a, "BODY[TEXT]")
    det = {"feats": _fk(replay), "appended": appended}
    if any(lit(a, k) != lit(b, k) for k in ("BODY[]", "BODY[HEADER]", "BODY[TEXT]", "RFC822.HEADER")) or a.get("RFC822.SIZE") != b.get("RFC822.SIZE"):
        mw.fail("C16.repeat-differs", det, replay)
    if full is None or hdr is None or txt is None:
        mw.fail("C16.item-missing", det, replay, None, sorted(a))
        return
    if int(a["RFC822.SIZE"]) != len(full):
        mw.fail("C16.size-vs-body", dict(det, diff=int(a["RFC822.SIZE"]) - len(full)), replay, len(full), int(a["RFC822.SIZE"]))
    if hdr + txt != full:
        mw.fail("C16.header-plus-text", dict(det, diff=len(hdr) + len(txt) - len(full)), replay, full[-60:], (hdr[-30:], txt[-30:]))
    if lit(a, "RFC822.HEADER") != hdr:
        mw.fail("C16.rfc822-aliases", dict(det, item="RFC822.HEADER"), replay, hdr, lit(a, "RFC822.HEADER"))
    if re.search(rb"(?<!\r)\n", full):
        mw.fail("C16.bare-newline", det, replay, None, re.search(rb".{0,20}(?<!\r)\n", full).group(0))
    r, resps = mw.cmd(f"UID FETCH {uid} (RFC822 RFC822.TEXT)", replay)
    for x in resps:
        if x.kind == "untagged" and x.typ == "FETCH":
            try:
                d = fetch_items(x)
            except Exception:
                continue
            if "RFC822" in d and lit(d, "RFC822") != full:
                mw.fail("C16.rfc822-aliases", dict(det, item="RFC822"), replay, full[:80], lit(d, "RFC822")[:80])
            if "RFC822.TEXT" in d and lit(d, "RFC822.TEXT") != txt:
                mw.fail("C16.rfc822-aliases", dict(det, item="RFC822.TEXT"), replay, txt[:80], lit(d, "RFC822.TEXT")[:80])
    n = len(full)
    parts = []
    for o in sorted({0, 1, max(n - 1, 0), n, n + 1}):
        for cnt in sorted({1, 2, max(n, 1), n + 7}):  # (n + 7: "the rest of it", a count larger than the item)
            parts.append((o, cnt))
    r, resps = mw.cmd(f"UID FETCH {uid} (" + " ".join(f"BODY.PEEK[]<{o}.{c}>" for o, c in parts) + ")", replay)
    if r is not None and r.typ == "OK":
        for x in resps:
            if x.kind == "untagged" and x.typ == "FETCH":
                try:
                    d = fetch_items(x)
                except Exception:
                    continue
                # the same origin may appear for several counts: results are positional in the response
                vals = [(str(k), v) for k, v in zip(x.data[0::2], x.data[1::2]) if str(k).upper().startswith("BODY[]<")]
                if vals and len(vals) == len(parts):
                    for (o, c), (k, v) in zip(parts, vals):
                        want = full[o : o + c]
                        gotv = b"" if v is None else bytes(v)
                        if gotv != want or k.upper() != f"BODY[]<{o}>":
                            mw.fail("C16.partial", dict(det, origin="end" if o >= n - 1 else "start", past_end=o >= n), replay, (o, c, want[:40]), (k, gotv[:40]))
                            break
    # the same for the two halves: a partial of BODY[HEADER] / BODY[TEXT] is a slice of that item
    for item, whole in (("HEADER", hdr), ("TEXT", txt)):
        m = len(whole)
        ps = [(o, c) for o in sorted({0, 1, m, m + 2}) for c in sorted({2, m + 5})]
        r, resps = mw.cmd(f"UID FETCH {uid} (" + " ".join(f"BODY.PEEK[{item}]<{o}.{c}>" for o, c in ps) + ")", replay)
        if r is not None and r.typ == "OK":
            for x in resps:
                if x.kind == "untagged" and x.typ == "FETCH" and not x.errors:
                    vals = [(str(k), v) for k, v in zip(x.data[0::2], x.data[1::2]) if str(k).upper().startswith(f"BODY[{item}]<")]
                    if vals and len(vals) == len(ps):
                        for (o, c), (k, v) in zip(ps, vals):
                            want = whole[o : o + c]
                            gotv = b"" if v is None else bytes(v)
                            if gotv != want:
                                mw.fail("C16.partial", dict(det, origin="end" if o >= m - 1 else "start", past_end=o >= m, item=item), replay,
                                        (o, c, _around(want, gotv)), (k, _around(gotv, want)))
                                break
    # section menu: every shape is asked for sections that exist, that do not, and that make no sense for it; each command
    # is answered (OK / NO / BAD), every response is well-formed (cmd() checks the syntax and the literal counts), the
    # session survives; a partial of a section is a slice of it.  (Observed, outside the properties: BODY[n.TEXT] of a
    # message/rfc822 *part* returns the whole encapsulated message, not its text -- C16 states the HEADER+TEXT equation
    # for the stored message only.)
    SECTIONS = ["1", "2", "3", "1.1", "2.1", "2.2", "1.MIME", "2.MIME", "2.HEADER", "2.TEXT", "2.1.MIME", "1.HEADER.FIELDS (SUBJECT)",
                "2.HEADER.FIELDS (SUBJECT TO)", "2.HEADER.FIELDS.NOT (TO)", "HEADER.FIELDS.NOT (SUBJECT)", "0", "1.TEXT", "TEXT.1", "4.5.6"]
    got_sec = {}
    for sec in SECTIONS:
        r, resps = mw.cmd(f"UID FETCH {uid} (BODY.PEEK[{sec}])", replay)
        if r is not None and r.typ == "OK":
            for x in resps:
                if x.kind == "untagged" and x.typ == "FETCH" and not x.errors:
                    for k, v in zip(x.data[0::2], x.data[1::2]):
                        if str(k).upper().startswith("BODY[") and v is not None:
                            got_sec[sec] = bytes(v)
    r, _ = mw.cmd("NOOP", replay)
    if r is None or r.typ != "OK":
        mw.fail("C06.session-unusable-afterwards", dict(det, after="section menu"), replay, "OK", str(r))
    for sec in ("1", "2"):
        if sec in got_sec and len(got_sec[sec]) > 3:
            whole = got_sec[sec]
            r, resps = mw.cmd(f"UID FETCH {uid} (BODY.PEEK[{sec}]<1.{len(whole) + 9}> BODY.PEEK[{sec}]<0.2>)", replay)
            for x in resps:
                if x.kind == "untagged" and x.typ == "FETCH" and not x.errors:
                    vals = [bytes(v) for k, v in zip(x.data[0::2], x.data[1::2]) if str(k).upper().startswith(f"BODY[{sec}]<") and v is not None]
                    if len(vals) == 2 and (vals[0] != whole[1:] or vals[1] != whole[:2]):
                        mw.fail("C16.partial", dict(det, origin="start", past_end=False, item="part " + sec), replay, (whole[1:41], whole[:2]), (vals[0][:40], vals[1]))
    # C07: structural items -- syntax is checked by cmd(); decode what can be decoded
    multipart = b"multipart/" in hdr.lower()
    r, resps = mw.cmd(f"UID FETCH {uid} (ENVELOPE BODYSTRUCTURE BODY INTERNALDATE FLAGS BODY.PEEK[1] {'BODY.PEEK[1.MIME] BODY.PEEK[2] ' if multipart else ''}"
                      f"BODY.PEEK[HEADER.FIELDS (SUBJECT FROM X-NOSUCH)] BODY.PEEK[HEADER.FIELDS.NOT (RECEIVED)])", replay)
    env = None
    for x in resps:
        if x.kind == "untagged" and x.typ == "FETCH" and not x.errors:
            try:
                d = fetch_items(x)
            except Exception:
                continue
            env = d.get("ENVELOPE") or env
    # header field names the client wrote as strings come back in the item's label: the label must stay a well-formed
    # `section` (header-fld-name = astring), whatever octets the names hold (syntax is checked by cmd())
    for names in ('"a\\"b"', '"a)b" "c]d"', '"sp ace" SUBJECT', '{3}\r\na\rb', '"back\\\\slash"'):
        r2, _ = mw.cmd(f"UID FETCH {uid} (BODY.PEEK[HEADER.FIELDS ({names})] BODY.PEEK[HEADER.FIELDS.NOT ({names})])".encode("latin-1"), replay)
        if r2 is not None and r2.typ != "OK":
            mw.fail("C07.structure-fetch-refused", dict(det, names=names[:12]), replay, "OK", r2.raw[:200])
    if r is not None and r.typ != "OK" and b"does not contain subsection" not in r.raw and b"does not exist in this message" not in r.raw:
        mw.fail("C07.structure-fetch-refused", det, replay, "OK", r.raw[:200])
    hfields, body0 = split_headers(raw)
    hd = {}
    for nme, v in hfields:
        hd.setdefault(nme.lower(), []).append(v)
    if env is not None and isinstance(env, list) and len(env) == 10:
        subj = env[1]
        want = hd.get(b"subject", [None])[0]
        if want is None or want == b"":
            if subj not in (None, b"", Atom("NIL")) and bytes(subj) != b"":
                mw.fail("C07.envelope-subject", det, replay, want, subj)
        else:
            gotb = b"" if subj is None else bytes(subj)
            if _canon_text(gotb) != _canon_text(want):
                mw.fail("C07.envelope-subject", det, replay, want, gotb)
        wf = hd.get(b"from", [None])[0]
        if wf is not None and spec is not None:  # only where the intended addresses are known (generated shapes)
            # RFC 2047: the address list is parsed first, encoded-words in a display name are decoded
            # afterwards (what they decode to -- quotes, commas -- is text, not syntax)
            exp = [(dec2047(n_.encode("latin-1")), a_) for n_, a_ in email.utils.getaddresses([wf.decode("latin-1")], strict=False)]
            fr = env[2] or []
            gota = []
            for ad in fr:
                if isinstance(ad, list) and len(ad) == 4:
                    nm = "" if ad[0] is None else dec2047(bytes(ad[0]))
                    mbx = "" if ad[2] is None else bytes(ad[2]).decode("latin-1")
                    hst = "" if ad[3] is None else bytes(ad[3]).decode("latin-1")
                    gota.append((nm, (mbx + "@" + hst) if hst else mbx))
            expn = [(re.sub(r"\s+", " ", n_).strip(), a_) for n_, a_ in exp if a_ or n_]
            if b":" not in wf.split(b"<")[0] and gota != expn:  # group syntax is compared loosely
                mw.fail("C07.envelope-address", det, replay, expn, gota)
        mid = env[9]
        wm = hd.get(b"message-id", [None])[0]
        if wm is not None and (mid is None or bytes(mid).strip() != wm.strip()):
            mw.fail("C07.envelope-message-id", det, replay, wm, mid)
    elif r is not None and r.typ == "OK":
        mw.fail("C07.envelope-shape", det, replay, "10-element list", _short(env))
    if appended:
        got_fields, got_body = split_headers(full)
        if [(n_.lower(), _canon_text(v)) for n_, v in got_fields] != [(n_.lower(), _canon_text(v)) for n_, v in hfields]:
            mw.fail("C16.append-roundtrip-headers", det, replay, hfields[:8], got_fields[:8])
        if norm_body(got_body) != norm_body(body0):
            mw.fail("C16.append-roundtrip-body", det, replay, norm_body(body0)[-80:], norm_body(got_body)[-80:])
    # COPY is byte-identical
    mw.cmd(f"SELECT {mbox}", replay)
    r, _ = mw.cmd(f"UID COPY {uid} other", replay)
    code = [str(c) for c in (r.code or [])] if r is not None else []
    if r is not None and r.typ == "OK" and len(code) == 4:
        mw.cmd("EXAMINE other", replay)
        r2, resps = mw.cmd(f"UID FETCH {code[3]} (BODY.PEEK[] RFC822.SIZE)", replay)
        for x in resps:
            if x.kind == "untagged" and x.typ == "FETCH":
                try:
                    d = fetch_items(x)
                except Exception:
                    continue
                if "BODY[]" in d and lit(d, "BODY[]") != full:
                    mw.fail("C16.copy-differs", det, replay, full[:60], lit(d, "BODY[]")[:60])
    else:
        mw.fail("C16.copy-failed", det, replay, "OK [COPYUID]", str(r))


def _canon_text(b: bytes) -> str:
    """Header text compared after RFC 2047 decoding, whitespace folding; raw 8-bit as latin-1 or utf-8."""
    t = dec2047(b)
    try:
        t2 = b.decode("utf-8")
        if "=?" not in t2:
            t = re.sub(r"\s+", " ", t2).strip()
    except UnicodeDecodeError:
        pass
    return t


def work_shapes(unit):
    mw = MsgWorld()
    n = 0
    try:
        for feats in unit:
            raw, spec = msggen.build(feats)
            rp = {"driver": "msg", "feats": list(feats)}
            r, _ = mw.cmd(b'APPEND INBOX () "01-Jan-2024 00:00:00 +0000" ' + imap_literal(raw), rp)
            code = [str(c) for c in (r.code or [])] if r is not None else []
            if r is None or r.typ != "OK" or len(code) != 3:
                mw.fail("C16.append-refused", {"feats": _fk(rp)}, rp, "OK [APPENDUID]", str(r))
            else:
                check_message(mw, "INBOX", int(code[2]), raw, spec, rp, True)
            n += 1
            key = mw.w.deliver("raw", raw.replace(b"\r\n", b"\n"), unseen=True, mtime=1704067200)
            mw.cmd("NOOP", rp)
            r, resps = mw.cmd("STATUS raw (UIDNEXT MESSAGES)", rp)
            uidnext = None
            for x in resps:
                if x.kind == "untagged" and x.typ == "STATUS":
                    kv = x.data[1]
                    d = {str(kv[i]).upper(): int(kv[i + 1]) for i in range(0, len(kv), 2)}
                    uidnext = d.get("UIDNEXT")
            if uidnext:
                check_message(mw, "raw", uidnext - 1, raw.replace(b"\r\n", b"\n"), spec, dict(rp, raw=True), False)
            n += 1
    finally:
        mw.close()
    return mw.fails, n


def work_fixtures(unit):
    mw = MsgWorld()
    n = 0
    try:
        for path in unit:
            with open(path, "rb") as f:
                raw = f.read()
            rp = {"driver": "fixture", "fixture": os.path.relpath(path, FIX)}
            mw.w.deliver("raw", raw, unseen=True, mtime=1704067200)
            mw.cmd("NOOP", rp)
            r, resps = mw.cmd("STATUS raw (UIDNEXT)", rp)
            for x in resps:
                if x.kind == "untagged" and x.typ == "STATUS":
                    uidnext = int(x.data[1][1])
                    check_message(mw, "raw", uidnext - 1, raw, None, rp, False)
            n += 1
    finally:
        mw.close()
    return mw.fails, n


def fixtures():
    out = []
    for d in ("one", "problems"):
        p = os.path.join(FIX, d)
        if os.path.isdir(p):
            out += [os.path.join(p, f) for f in sorted(os.listdir(p), key=lambda x: (len(x), x)) if f.isdigit()]
    return out


NAMES = ["plain", "sp ace", 'q"uote', "back\\slash", "caf\xe9", "per%cent", "st*ar", "br[ack]et", "{5}", "tr\\", "a/b c/d\"e", "&-amp", "x\ty",
         "two  spaces", " lead", "trail ", "caf\xc3\xa0", "\xc3\x85rhus", "nb\xa0sp"]  # white space that must come back exactly (runs, ends, octets 0x85/0xA0)
KEYWORDS = ["$Fwd", "kw-1", "kw.dot", "kw[1]", "\xe9kw"]


def work_names(_unit):
    """Mailbox names / keywords through LIST, LSUB, STATUS, SELECT FLAGS; error texts."""
    mw = MsgWorld()
    n = 0
    try:
        for nm in NAMES:
            rp = {"driver": "names", "name": nm, "feats": ["name:" + nm]}
            b = nm.encode("latin-1")
            r, _ = mw.cmd(b"CREATE " + imap_literal(b), rp)
            n += 1
            if r is None or r.typ != "OK":
                continue
            mw.cmd(b"SUBSCRIBE " + imap_literal(b), rp)
            for c in ("LIST", "LSUB"):
                r, resps = mw.cmd(f'{c} "" "*"', rp)
                names = []
                for x in resps:
                    if x.kind == "untagged" and x.typ == c and len(x.data) >= 3 and not x.errors:
                        v = x.data[2]
                        names.append(bytes(v).decode("latin-1") if isinstance(v, bytes) else str(v))
                if nm not in names and os.path.normpath(nm) not in names:
                    mw.fail("C07.list-name-decoding", {"cmd": c, "name": nm}, rp, nm, names)
            # the other ways a name is sent: LIST-EXTENDED selection / return options, and the STATUS lines of LIST ... RETURN (STATUS ..)
            for c in ('LIST (SUBSCRIBED) "" "*" RETURN (CHILDREN)', 'LIST "" ("%" "*") RETURN (SUBSCRIBED)', 'LIST "" "*" RETURN (STATUS (MESSAGES UIDNEXT))'):
                r, resps = mw.cmd(c, rp)
                n += 1
                for typ in ("LIST", "STATUS") if "STATUS" in c else ("LIST",):
                    names = []
                    for x in resps:
                        if x.kind == "untagged" and x.typ == typ and not x.errors and len(x.data) >= (3 if typ == "LIST" else 1):
                            v = x.data[2 if typ == "LIST" else 0]
                            names.append(bytes(v).decode("latin-1") if isinstance(v, bytes) else str(v))
                    if r is not None and r.typ == "OK" and nm not in names and os.path.normpath(nm) not in names:
                        mw.fail("C07.list-name-decoding", {"cmd": c.split('"')[0].strip() + " .. " + c.rsplit("RETURN", 1)[1].strip() + ":" + typ, "name": nm}, rp, nm, names)
            r, resps = mw.cmd(b"STATUS " + imap_literal(b) + b" (MESSAGES)", rp)
            for x in resps:
                if x.kind == "untagged" and x.typ == "STATUS" and not x.errors:
                    v = x.data[0]
                    v = bytes(v).decode("latin-1") if isinstance(v, bytes) else str(v)
                    if v not in (nm, os.path.normpath(nm)):
                        mw.fail("C07.status-name-decoding", {"name": nm}, rp, nm, v)
        # keywords
        from .. import msgs

        rp = {"driver": "names", "feats": ["keywords"]}
        mw.cmd("CREATE plain", rp)
        for c in (b"APPEND plain () " + imap_literal(msgs.make("k1")), "SELECT plain"):
            r, _ = mw.cmd(c, rp)
            if r is None or r.typ != "OK":  # the parts below would be vacuous
                raise AssertionError(f"set-up command refused: {c!r} -> {r.raw if r else None!r}")
        for kw in KEYWORDS:
            rp = {"driver": "names", "feats": ["kw:" + kw]}
            mw.cmd(f"STORE 1 +FLAGS ({kw})".encode("latin-1"), rp)
            mw.cmd("FETCH 1 (FLAGS)", rp)
            mw.cmd("SELECT plain", rp)
            mw.cmd(f"STORE 1 -FLAGS ({kw})".encode("latin-1"), rp)
            n += 1
        # error paths echoing client input
        for arg in (b"no\r\nsuch", b'q"x', b"b\\x", b"\xe9\xe8", b"x" * 300):
            rp = {"driver": "names", "feats": ["err:" + arg[:8].decode("latin-1")]}
            for c in (b"SELECT ", b"DELETE ", b"RENAME plain ", b"STATUS ", b"COPY 1 "):
                tail = b" (MESSAGES)" if c.startswith(b"STATUS") else b""
                mw.cmd(c + imap_literal(arg) + tail, rp)
                n += 1
            mw.cmd(b"SEARCH HEADER " + imap_literal(arg) + b" x", rp)
            mw.cmd(b"BOGUS" + arg[:10].replace(b"\r\n", b""), rp)
        # response codes and untagged data of commands that find nothing to do
        rp = {"driver": "names", "feats": ["empty-results"]}
        for c in ("CREATE er", b"APPEND er () " + imap_literal(msgs.make("k2")), "SELECT er"):
            r, _ = mw.cmd(c, rp)
            if r is None or r.typ != "OK":  # the part below would be vacuous
                raise AssertionError(f"set-up command refused: {c!r} -> {r.raw if r else None!r}")
        for c in ("UID COPY 999 er", "UID MOVE 999 er", "UID COPY 999:1000 INBOX", "UID FETCH 999 (FLAGS)", "UID STORE 999 +FLAGS (x)", "UID SEARCH UID 999",
                  "SEARCH KEYWORD nosuchkw", "UID EXPUNGE 999", "COPY 1 er", "UID COPY 1,999 er", 'LIST "" "nosuch%"', 'LIST (SUBSCRIBED) "" "nosuch*" RETURN (CHILDREN)',
                  "STATUS er (MESSAGES RECENT UIDNEXT UIDVALIDITY UNSEEN)", "EXAMINE er", "CLOSE", "STATUS er (UNSEEN)"):
            mw.cmd(c, rp)
            n += 1
    finally:
        mw.close()
    return mw.fails, n
