"""
C12 -- an orderly restart changes nothing a client can see.

Engine H, differential: for every history up to the depth bound the final state is observed
through the protocol (LIST, LSUB, STATUS, EXAMINE, UID FETCH, FETCH FLAGS per mailbox), the
server is shut down in an orderly way and started again on the same directory (plain
shutdown()+start-up, and -- real IMAPUserServer.run() -- the exit after 30 virtual minutes
without clients followed by a new launch), and the same observation is repeated.  The two
observations must be equal (flags modulo \\Recent; re-created SPECIAL-USE mailboxes allowed).
There is no hand-written expected value.
"""

from __future__ import annotations

PROP = "C12"
RULES = ("C12.",)


def cfg(how="shutdown"):
    from .common import cfg_basic

    mode = "run" if how == "expire" else "new"
    c = cfg_basic(PROP, 3, others=("a", "a/b"), mode=mode, name=f"c12-{how}")
    c["pack_limit"] = 3
    c["observe_mode"] = "restart-diff"
    c["restart_how"] = how
    c["prelude"] = [{"s": "A", "op": "select", "m": "INBOX"}]
    return c


def alphabet(tier):
    A = "A"
    return [
        {"s": A, "op": "append", "m": "INBOX", "flags": "\\Seen kw1"},
        {"s": A, "op": "append", "m": "a/b"},
        {"s": A, "op": "del", "set": "1"},
        {"s": A, "op": "del", "set": "2"},
        {"s": A, "op": "del", "set": "*"},
        {"s": A, "op": "store", "set": "1:*", "mode": "+", "flags": "\\Answered kw2"},
        {"s": A, "op": "store", "set": "2", "mode": "+", "flags": "\\Deleted \\Flagged \\Draft"},
        {"s": A, "op": "fetch", "set": "1", "items": "BODY[]"},
        {"s": A, "op": "copy", "set": "1:*", "dst": "a"},
        {"s": A, "op": "move", "set": "2", "dst": "a/b"},
        {"s": A, "op": "copy", "set": "2:*", "dst": "INBOX"},
        {"s": "env", "op": "deliver", "m": "INBOX"},
        {"s": "env", "op": "poll", "dt": 21.0},
        {"s": A, "op": "subscribe", "m": "a"},
        {"s": A, "op": "subscribe", "m": "INBOX"},
        {"s": A, "op": "unsubscribe", "m": "a"},
        {"s": A, "op": "delete", "m": "a"},
        {"s": A, "op": "delete", "m": "a/b"},
        {"s": A, "op": "create", "m": "a"},
        {"s": A, "op": "create", "m": "x/y"},
        {"s": A, "op": "rename", "m": "a", "to": "c"},
        {"s": A, "op": "rename", "m": "INBOX", "to": "old"},
        {"s": A, "op": "delete", "m": "Drafts"},
        {"s": A, "op": "select", "m": "a"},
        {"s": A, "op": "close"},
    ]


def run(tier, seed, jobs):
    from .hcommon import run_h

    plans = [{"cfg_ref": ("vf.props.c12", "cfg", ["shutdown"]), "alphabet": alphabet(tier), "depth": 3 if tier == "quick" else 4, "label": "shutdown()+start"}]
    plans.append({"cfg_ref": ("vf.props.c12", "cfg", ["expire"]), "alphabet": alphabet(tier), "depth": 2 if tier == "quick" else 3,
                  "label": "real run(): expiry after 30 min idle, relaunch"})
    A = "A"
    core = [{"s": A, "op": "append", "m": "INBOX", "flags": "\\Seen kw1"}, {"s": A, "op": "del", "set": "*"}, {"s": A, "op": "del", "set": "1"},
            {"s": A, "op": "store", "set": "1:*", "mode": "+", "flags": "\\Answered kw2"}, {"s": A, "op": "rename", "m": "INBOX", "to": "old"},
            {"s": A, "op": "delete", "m": "a"}, {"s": A, "op": "create", "m": "a"}, {"s": A, "op": "subscribe", "m": "a"}]
    plans.append({"cfg_ref": ("vf.props.c12", "cfg", ["shutdown"]), "alphabet": core, "depth": 4 if tier == "quick" else 5,
                  "label": "shutdown()+start, core alphabet, deep"})
    res = run_h(PROP, RULES, plans, ("C12",), jobs, seed,
                 ["one client session; mailboxes INBOX(3), a, a/b (+ the five SPECIAL-USE mailboxes in the run() plan); pack threshold 3",
                  "differential oracle: observation before vs after the restart; nothing is compared with a hand-written expectation",
                  "flags compared modulo \\Recent and the derived `unseen`; RECENT counts not compared; \\Marked/\\Unmarked ignored in LIST"],
                 time_budget=170 if tier == "quick" else 1200)
    # schedule part: what two sessions did at the same time survives an orderly restart (LSUB, LIST, STATUS before = after)
    from ..explore import sched

    per = []
    for sc in s_scenarios():
        r = sched.explore(sc, 2, jobs, seed, max_exec=30000 if tier == "quick" else 100000)
        res.failures.extend(f for f in r["failures"] if f.rule.startswith("C12."))
        res.coverage["states"] += r["executions"]
        res.coverage["transitions"] += r["steps"]
        res.coverage["traces_validated_against_impl"] += r["executions"]
        per.append({"scenario": sc["name"], "executions": r["executions"], "bound": r["bound_completed"], "outcomes": r["distinct_outcomes"], "cap": r["cap"]})
    res.coverage["schedule_part"] = per
    res.assumptions.append("schedule part: SUBSCRIBE / UNSUBSCRIBE / APPEND of one session while another activates the same mailbox, every schedule with <=2 deviations, "
                           "then shutdown()+start: LSUB, LIST and STATUS (MESSAGES UIDNEXT UIDVALIDITY) of every mailbox are the same before and after")
    return res


def s_scenarios():
    base = {"cfg_ref": ["vf.props.c06", "cfg", []], "loopopts": {"preempt_timers": False}, "prelude": [{"s": "A", "op": "select", "m": "INBOX"}], "epilogue_restart_same": True}
    out = []
    for name, a, b in [("subscribe-e|select-e (e inactive)", {"op": "subscribe", "m": "e"}, {"op": "select", "m": "e"}),
                       ("subscribe-e|status-e (e inactive)", {"op": "subscribe", "m": "e"}, {"op": "status", "m": "e"}),
                       ("append-e|select-e (e inactive)", {"op": "append", "m": "e", "cid": "q7"}, {"op": "select", "m": "e"})]:
        out.append(dict(base, name=name, concurrent={"A": [dict(a, s="A")], "B": [dict(b, s="B")]}))
    return out


def replay(rec):
    rp = rec["replay"]
    if rp.get("driver") == "s":
        from ..explore import sched

        _p, _n, _sig, fails, _st = sched.run_one((rp["scenario"], rp["choices"]))
        return [f for f in fails if f.rule.startswith("C12.")]
    from .hcommon import replay_h

    return replay_h("C12.", rec)
