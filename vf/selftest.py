"""Fast self-tests of the machinery itself (run by setup.sh)."""

from __future__ import annotations

import sys


def t_respparse():
    from .respparse import parse_stream, fetch_items

    data = (
        b"* 1 FETCH (UID 2 BODY[HEADER.FIELDS (SUBJECT)] {5}\r\na\r\nbc FLAGS (\\Seen))\r\n"
        b'* LIST (\\HasNoChildren) "/" "a \\"b\\" c"\r\n'
        b"* SEARCH 1 2 3\r\n* OK [UIDNEXT 4] hi there\r\nA1 OK [READ-WRITE] done\r\n+ idling\r\npartial"
    )
    rs, errs, rest = parse_stream(data)
    assert not errs, errs
    assert rest == b"partial"
    assert [r.typ for r in rs[:5]] == ["FETCH", "LIST", "SEARCH", "OK", "OK"], rs
    it = fetch_items(rs[0])
    assert it["UID"] == "2" and bytes(it["BODY[HEADER.FIELDS (SUBJECT)]"]) == b"a\r\nbc"
    assert bytes(rs[1].data[2]) == b'a "b" c'
    for bad in (b'* LIST () "/" "a"b"\r\n', b"* 1 FETCH (FLAGS (\\Seen)\r\n", b"A1 OK x\ry\r\n", b'* LIST () "/" "a\\x"\r\n'):
        _, e, _ = parse_stream(bad)
        assert e, bad


def t_sets():
    from .refmodel import sets as S

    assert S.denote_seq([(4, 2)], 5) == {2, 3, 4}
    assert S.denote_seq(["*", (1, "*")], 3) == {1, 2, 3}
    assert S.denote_uid([(100, "*")], [2, 4, 8]) == {8}
    assert S.denote_uid([3, 4], [2, 4, 8]) == {4}
    try:
        S.denote_seq([6], 5)
        raise AssertionError
    except S.Invalid:
        pass


def t_determinism():
    """The same history run twice gives byte-identical output and choice points."""
    from . import templates
    from .world import World

    tmpl = templates.simple_inbox("selftest", 3, [2])
    outs = []
    for _ in range(2):
        w = World(tmpl)
        w.start()
        a, b = w.connect("A"), w.connect("B")
        for s, c in [(a, "SELECT INBOX"), (b, "SELECT INBOX"), (a, "STORE 1 +FLAGS (\\Deleted)"), (a, "EXPUNGE"),
                     (b, "NOOP"), (b, "FETCH 1:* (UID FLAGS)"), (a, "COPY 1 other"), (a, "LIST \"\" *")]:
            s.do(c)
        w.shutdown()
        outs.append((a.out, b.out, [(p.kind, p.n) for p in w.sched.points], w.db_dump(), w.snapshot_tree("mail")))
        w.close()
    assert outs[0] == outs[1], "harness nondeterminism"


def main():
    from . import seams

    seams.install()
    for name, fn in sorted(globals().items()):
        if name.startswith("t_"):
            fn()
            print("selftest", name, "ok")
    return 0


if __name__ == "__main__":
    sys.exit(main())
