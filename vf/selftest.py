"""Fast self-tests of the machinery itself (run by setup.sh)."""

from __future__ import annotations

import sys


def t_respparse():
    from .respparse import parse_stream, fetch_items

    data = (
        b"* 1 FETCH (UID 2 BODY[HEADER.FIELDS (SUBJECT)] {5}\r\na\r\nbc FLAGS (\\Seen))\r\n"
        b'* LIST (\\HasNoChildren) "/" "a \\"b\\" c"\r\n'
        b"* SEARCH 1 2 3\r\n* OK [UIDNEXT 4] hi there\r\nA1 OK [READ-WRITE] done\r\n+ idling\r\npartial"
    )
    rs, errs, rest = parse_stream(data)
    assert not errs, errs
    assert rest == b"partial"
    assert [r.typ for r in rs[:5]] == ["FETCH", "LIST", "SEARCH", "OK", "OK"], rs
    it = fetch_items(rs[0])
    assert it["UID"] == "2" and bytes(it["BODY[HEADER.FIELDS (SUBJECT)]"]) == b"a\r\nbc"
    assert bytes(rs[1].data[2]) == b'a "b" c'
    for bad in (b'* LIST () "/" "a"b"\r\n', b"* 1 FETCH (FLAGS (\\Seen)\r\n", b"A1 OK x\ry\r\n", b'* LIST () "/" "a\\x"\r\n'):
        _, e, _ = parse_stream(bad)
        assert e, bad


def t_respparse_sections_and_codes():
    from .respparse import parse_stream

    good = (b'* 1 FETCH (BODY[HEADER.FIELDS ("a)b" "c]d" SUBJECT)] {2}\r\n\r\n)\r\n'
            b"A1 OK [COPYUID 7 1:2,5 9:11] done\r\nA2 OK [APPENDUID 7 12] done\r\n* OK [UIDNEXT 13] x\r\n")
    _, errs, _ = parse_stream(good)
    assert not errs, errs
    for bad in (b"* 1 FETCH (BODY[HEADER.FIELDS (a)b c]d)] {2}\r\n\r\n)\r\n", b"A1 OK [COPYUID 7  ] done\r\n", b"A1 OK [COPYUID 7 1:2] done\r\n",
                b'* 1 FETCH (BODY[HEADER.FIELDS ("a)] {2}\r\n\r\n)\r\n', b"* OK [UIDNEXT 0] x\r\n"):
        _, e, _ = parse_stream(bad)
        assert e, bad


def t_cmdgrammar():
    """The independent command recogniser on sentences taken from RFC 3501 / 4315 / 5258 / 6851 examples, and on near misses."""
    import datetime

    from .refmodel.cmdgrammar import classify_overacceptance, recognise

    ok = {
        'A003 APPEND saved-messages (\\Seen) {5}\r\nhello': ("append", {"flags": ["\\Seen"], "mailbox_name": "saved-messages", "message_raw": "hello"}),
        "A654 FETCH 2:4 (FLAGS BODY[HEADER.FIELDS (DATE FROM)])": ("fetch", {"msg_set": [(2, 4)]}),
        'A282 SEARCH FLAGGED SINCE 1-Feb-1994 NOT FROM "Smith"': ("search", {"search": ("and", [("keyword", "\\Flagged"), ("since", datetime.date(1994, 2, 1)),
                                                                                             ("not", ("header", "from", "smith"))])}),
        "A003 STORE 2:4 +FLAGS (\\Deleted)": ("store", {"store_action": "add", "flags": ["\\Deleted"], "silent": False}),
        "a STORE 1 -flags.silent \\seen \\DELETED kw": ("store", {"store_action": "remove", "flags": ["\\Seen", "\\Deleted", "kw"], "silent": True}),
        "A003 UID EXPUNGE 3000:3002": ("expunge", {"uid": True, "msg_set": [(3000, 3002)]}),
        "a UID MOVE 42:69 foo": ("move", {"uid": True, "mailbox_name": "foo"}),
        'A04 LIST (SUBSCRIBED RECURSIVEMATCH) "" "*" RETURN (CHILDREN)': ("list", {"sel": ["recursivematch", "subscribed"], "ret": ["children"]}),
        'A01 LIST "" ("INBOX" "Drafts" "Sent/%") RETURN (STATUS (MESSAGES UNSEEN))': ("list", {"patterns": ["inbox", "Drafts", "Sent/%"], "status": ["messages", "unseen"]}),
        "t}1 CREATE a}b": ("create", {"mailbox_name": "a}b"}),
        'a ID ("name" "x" "version" NIL)': ("id", {"id": {"name": "x", "version": None}}),
        "a FETCH 1 BODY.PEEK[1.2.MIME]<0.1>": ("fetch", {"fetch": [("body", [1, 2, "mime"], (0, 1), True)]}),
    }
    for line, (cmd, want) in ok.items():
        v = recognise(line)
        assert v[0] == "ok" and v[1]["command"] == cmd, (line, v)
        for k, val in want.items():
            assert v[1].get(k) == val, (line, k, v[1].get(k), val)
    bad = ["a1", "a1 ", "a+ NOOP", "a1 NOOP x", "a1 FETCH 1", "a1 FETCH 0 FLAGS", "a1 FETCH 01 FLAGS", "a1 FETCH 1 ()", "a1 FETCH 1 BODY[MIME]", "a1 FETCH 1 BODY[1.]",
           "a1 FETCH 1 BODY[]<1.0>", "a1 STORE 1 +FLAG (x)", "a1 STORE 1 FLAGS (])", "a1 SEARCH", "a1 SEARCH OR ALL", "a1 SEARCH ()", "a1 STATUS x ()",
           "a1 LSUB (SUBSCRIBED) \"\" *", "a1 LIST (RECURSIVEMATCH) \"\" *", 'a1 APPEND x "hello"', "a1 APPEND x {9}\r\nshort", "a1 UID NOOP", "a1 SELECT a b",
           "a1 COPY 1:2:5 x", "a1 SEARCH KEYWORD \\Seen", 'a1 CREATE "un"terminated"']
    for line in bad:
        assert recognise(line)[0] == "bad", line
    assert recognise("a1 SEARCH ON 31-Feb-2020")[0] == "dontcare"
    assert classify_overacceptance("a1 FETCH 1 BODY[1.]") == "section-trailing-dot"
    assert classify_overacceptance("a1 FETCH 1 ()") == "empty-fetch-list"
    assert classify_overacceptance("a1 NOOP x") is None


def t_sets():
    from .refmodel import sets as S

    assert S.denote_seq([(4, 2)], 5) == {2, 3, 4}
    assert S.denote_seq(["*", (1, "*")], 3) == {1, 2, 3}
    assert S.denote_uid([(100, "*")], [2, 4, 8]) == {8}
    assert S.denote_uid([3, 4], [2, 4, 8]) == {4}
    try:
        S.denote_seq([6], 5)
        raise AssertionError
    except S.Invalid:
        pass


def t_determinism():
    """The same history run twice gives byte-identical output and choice points."""
    from . import templates
    from .world import World

    tmpl = templates.simple_inbox("selftest", 3, [2])
    outs = []
    for _ in range(2):
        w = World(tmpl)
        w.start()
        a, b = w.connect("A"), w.connect("B")
        for s, c in [(a, "SELECT INBOX"), (b, "SELECT INBOX"), (a, "STORE 1 +FLAGS (\\Deleted)"), (a, "EXPUNGE"),
                     (b, "NOOP"), (b, "FETCH 1:* (UID FLAGS)"), (a, "COPY 1 other"), (a, "LIST \"\" *")]:
            s.do(c)
        w.shutdown()
        outs.append((a.out, b.out, [(p.kind, p.n) for p in w.sched.points], w.db_dump(), w.snapshot_tree("mail")))
        w.close()
    assert outs[0] == outs[1], "harness nondeterminism"


def main():
    from . import seams

    seams.install()
    for name, fn in sorted(globals().items()):
        if name.startswith("t_"):
            fn()
            print("selftest", name, "ok")
    return 0


if __name__ == "__main__":
    sys.exit(main())
