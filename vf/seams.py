"""
Every monkey-patch that closes the world around asimap.  Harness-side only: nothing
in /repo is changed.  `install()` must run before any asimap coroutine executes; it
imports asimap from ASIMAP_SRC (default /repo).
"""

from __future__ import annotations

import gc
import logging
import os
import sys
from asyncio import events

ASIMAP_SRC = os.environ.get("ASIMAP_SRC", "/repo")

EPOCH = 1_700_000_000.0  # virtual wall clock = EPOCH + loop.time()
MTIME_BASE = 1_000_000_000  # every "real" folder mtime collapses to this second

_installed = False


class Ctx:
    """Per-execution context the seams consult (set by world.Execution)."""

    syn_mtime: dict[str, int] = {}
    log_records: list = []
    crash_hook = None  # callable(kind, label) used by the crash explorer
    fake_server = None


ctx = Ctx()


def cur_loop():
    return events._get_running_loop()


class _TimeShim:
    """Stands in for the `time` module inside asimap modules."""

    def __init__(self, real):
        self._real = real

    def time(self):
        lp = cur_loop()
        return EPOCH + (lp.time() if lp is not None else 0.0)

    def monotonic(self):
        lp = cur_loop()
        return lp.time() if lp is not None else 0.0

    def __getattr__(self, name):
        return getattr(self._real, name)


class _VQueue:
    """Replaces aiosqlite's SimpleQueue: registers each DB call as a scheduler-owned op."""

    def put_nowait(self, item):
        fut, fn = item
        lp = cur_loop()
        if lp is None or not hasattr(lp, "add_ext_op"):
            # no virtual loop (e.g. interpreter shutdown): run synchronously
            try:
                fn()
            except Exception:
                pass
            return
        lp.add_ext_op("db", fn, fut, label=_dblabel(fn))


def _dblabel(fn):
    f = fn
    args = ()
    while hasattr(f, "func"):
        args = getattr(f, "args", ()) or args
        f = f.func
    name = getattr(f, "__name__", type(f).__name__)
    if name == "execute" and args:
        sql = str(args[0]).strip().split()
        return "sql:" + (sql[0].lower() if sql else "")
    return name


class _NoThread:
    def start(self):
        pass

    def join(self, *a):
        pass

    def is_alive(self):
        return False


class _Capture(logging.Handler):
    def emit(self, record):
        try:
            exc = record.exc_info[1] if record.exc_info else None
            ctx.log_records.append(
                (
                    record.levelname,
                    record.name.split(":")[0],
                    record.funcName,
                    type(exc).__name__ if exc else None,
                    (record.getMessage()[:200] if record.levelno >= logging.WARNING else ""),
                )
            )
        except Exception:
            pass


def install():
    global _installed
    if _installed:
        return
    _installed = True
    os.environ.pop("SENTRY_DSN", None)
    if ASIMAP_SRC not in sys.path:
        sys.path.insert(0, ASIMAP_SRC)

    # --- aiosqlite: no worker thread ------------------------------------------------
    import aiosqlite.core as ac

    orig_init = ac.Connection.__init__

    def conn_init(self, *a, **kw):
        orig_init(self, *a, **kw)
        self._tx = _VQueue()
        self._thread = _NoThread()

    ac.Connection.__init__ = conn_init

    # --- folder mtimes -----------------------------------------------------------------
    import aiofiles.base
    import aiofiles.os
    import aiofiles.ospath

    real_getmtime = os.path.getmtime

    def v_getmtime(path):
        p = str(path)
        if os.path.basename(p) == ".mh_sequences":
            real_getmtime(p)  # keep the ENOENT behaviour
            return float(ctx.syn_mtime.get(os.path.dirname(p), MTIME_BASE))
        if os.path.isdir(p):
            return float(ctx.syn_mtime.get(p.rstrip("/"), MTIME_BASE))
        return real_getmtime(p)

    aiofiles.ospath.getmtime = aiofiles.base.wrap(v_getmtime)

    # the same answer for code that asks os.path directly (real mtimes are wall-clock time and would
    # always look "newer" than the virtual ones); only folders and .mh_sequences files under a jail
    def v_os_getmtime(path):
        p = os.fspath(path)
        if isinstance(p, str) and "/asimap-verif-" in p:
            return v_getmtime(p)
        return real_getmtime(p)

    os.path.getmtime = v_os_getmtime

    # --- asimap modules ----------------------------------------------------------------
    import time as _time

    import asimap.client
    import asimap.mbox
    import asimap.throttle
    import asimap.user_server
    import asimap.utils

    shim = _TimeShim(_time)
    for mod in (asimap.mbox, asimap.user_server, asimap.throttle, asimap.utils):
        if hasattr(mod, "time"):
            mod.time = shim
    import asyncio as _asyncio

    class _AsyncioProxy:
        async def start_server(self, cb, *a, **kw):
            return ctx.fake_server

        def __getattr__(self, n):
            return getattr(_asyncio, n)

    class _NullOut:
        def write(self, s):
            pass

        def flush(self):
            pass

    class _SysProxy:
        stdout = _NullOut()

        def __getattr__(self, n):
            return getattr(sys, n)

    asimap.user_server.asyncio = _AsyncioProxy()
    asimap.user_server.sys = _SysProxy()
    asimap.mbox.randrange = lambda a, b=None: a
    asimap.user_server.randrange = lambda a, b=None: a

    # --- logging: capture, never print -------------------------------------------------
    root = logging.getLogger()
    for h in list(root.handlers):
        root.removeHandler(h)
    root.addHandler(_Capture())
    root.setLevel(logging.WARNING)
    logging.getLogger("asimap").setLevel(logging.WARNING)
    logging.getLogger("aiosqlite").setLevel(logging.ERROR)
    logging.getLogger("asyncio").setLevel(logging.CRITICAL)
    logging.raiseExceptions = False

    gc.disable()
