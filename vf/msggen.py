"""Message shapes for C07/C16: a default RFC 5322 message + a menu of feature deviations."""

from __future__ import annotations

import itertools

DEFAULT = {
    "from": "Alice Example <alice@example.com>",
    "to": "Bob <bob@example.org>",
    "subject": "plain subject",
    "date": "Mon, 01 Jan 2024 10:00:00 +0000",
    "msgid": "<gen1@verif.example>",
    "extra": [],  # list of (name, raw value bytes)
    "ctype": None,  # raw Content-Type header value (bytes) or None
    "body": b"first line\r\nsecond line\r\n",
    "nl": b"\r\n",
}


def _b(x):
    return x if isinstance(x, bytes) else x.encode("utf-8")


def f_subj_quote(m):
    m["subject"] = 'say "hello" to them'


def f_subj_backslash(m):
    m["subject"] = "path C:\\temp\\x and \\\" mix"


def f_subj_latin1(m):
    m["subject"] = "caf\xe9 cr\xe8me".encode("latin-1")


def f_subj_utf8(m):
    m["subject"] = "na\u00efve \u2603 snowman".encode("utf-8")


def f_subj_2047(m):
    m["subject"] = "=?utf-8?q?h=C3=A9llo_w=C3=B6rld?= and =?iso-8859-1?b?Y2Fm6Q==?="


# one value mixing the ingredients that take different code paths when a header is turned into an IMAP
# string: a character outside latin-1 (forces an RFC 2047 encoded-word on output) together with the
# characters that need escaping in a quoted string
def f_subj_2047_quote(m):
    m["subject"] = "=?utf-8?q?say_=22hi=22_=E2=98=83_snowman?="


def f_subj_2047_backslash(m):
    m["subject"] = "=?utf-8?b?" + __import__("base64").b64encode("C:\\temp\\x \u2603".encode("utf-8")).decode() + "?="


def f_subj_utf8_quote(m):
    m["subject"] = 'raw "quoted" \u2603 and C:\\dir'.encode("utf-8")


def f_subj_latin2047_quote(m):
    m["subject"] = "=?iso-8859-1?q?caf=E9_=22cr=E8me=22_a=5Cb?="


def f_from_2047_quote(m):
    m["from"] = "=?utf-8?q?Zo=C3=AB_=22Z=22_=CE=A9mega?= <zoe@example.com>"


def f_from_2047_crlf(m):
    # an encoded word that decodes to CR LF inside a display name: nothing of it may reach a quoted string raw, and the message stays fetchable
    m["from"] = "=?utf-8?q?two=0D=0Alines?= <alice@example.com>"


def f_subj_folded(m):
    m["subject"] = b"a long subject that is\r\n folded over\r\n\tthree lines"


def f_subj_empty(m):
    m["subject"] = ""


def f_subj_long(m):
    m["subject"] = "word " * 400


def f_subj_missing(m):
    m["subject"] = None


def f_from_quoted(m):
    m["from"] = '"Doe, John \\"JD\\"" <john.doe@example.com>'


def f_from_group(m):
    m["from"] = "Team: a@example.com, B Person <b@example.com>;"


def f_from_missing(m):
    m["from"] = None


def f_from_8bit(m):
    m["from"] = "Fr\xe9d\xe9ric <fred@example.com>".encode("latin-1")


def f_date_missing(m):
    m["date"] = None


def f_date_odd(m):
    m["date"] = "1 Jan 24 10:00 GMT"


def f_to_many(m):
    m["to"] = 'One <one@example.com>, "Two, T." <two@example.com>, three@example.com'


def f_msgid_missing(m):
    m["msgid"] = None


def f_inreplyto(m):
    m["extra"].append(("In-Reply-To", b"<parent@verif.example>"))
    m["extra"].append(("References", b"<a@x> <b@y>\r\n <c@z>"))


def f_hdr_nocolon_space(m):
    m["extra"].append(("X-Odd", b"value with trailing spaces   "))
    m["extra"].append(("X-Empty", b""))


def _multipart(boundary, parts, sub="mixed", pre=b""):
    out = [pre]
    for p in parts:
        out.append(b"--" + boundary + b"\r\n" + p)
    out.append(b"--" + boundary + b"--\r\n")
    return b"Content-Type: multipart/" + sub.encode() + b'; boundary="' + boundary + b'"', b"".join(out)


TEXT1 = b"Content-Type: text/plain; charset=us-ascii\r\n\r\npart one\r\n"
TEXT2 = b"Content-Type: text/plain; charset=utf-8\r\nContent-Transfer-Encoding: 8bit\r\n\r\npart two \xc3\xa9\r\n"
HTML = b"Content-Type: text/html\r\n\r\n<p>part</p>\r\n"
INNER = (b"From: inner@example.com\r\nTo: x@example.com\r\nSubject: inner message\r\nMessage-ID: <inner@verif.example>\r\n"
         b"Date: Tue, 02 Jan 2024 00:00:00 +0000\r\n\r\ninner body\r\n")


def f_mime_mixed2(m):
    h, b = _multipart(b"BOUND1", [TEXT1, TEXT2], pre=b"preamble\r\n")
    m["ctype"], m["body"] = h, b


def f_mime_alt_in_mixed(m):
    hi, bi = _multipart(b"INNERB", [TEXT1, HTML], "alternative")
    h, b = _multipart(b"OUTERB", [hi + b"\r\n\r\n" + bi, TEXT2])
    m["ctype"], m["body"] = h, b


def f_mime_rfc822_top(m):
    m["ctype"], m["body"] = b"Content-Type: message/rfc822", INNER


def f_mime_rfc822_nested(m):
    h, b = _multipart(b"B822", [TEXT1, b"Content-Type: message/rfc822\r\n\r\n" + INNER])
    m["ctype"], m["body"] = h, b


def f_ct_param_quote(m):
    m["ctype"] = b'Content-Type: text/plain; charset="us-ascii"; name="a \\"quoted\\" name.txt"'


def f_cdisp_bare(m):
    m["extra"].append(("Content-Disposition", b"inline"))


def f_mime_parts_bare_disp(m):
    h, b = _multipart(b"BDISP", [b"Content-Type: text/plain\r\nContent-Disposition: attachment\r\n\r\npart one\r\n",
                                 b"Content-Type: text/plain; charset=us-ascii\r\nContent-Disposition: inline; filename=\"x.txt\"\r\n\r\npart two\r\n"])
    m["ctype"], m["body"] = h, b


def f_ct_param_spaces(m):
    m["ctype"] = b'Content-Type: application/octet-stream; name="a  b .txt"'
    m["extra"].append(("Content-Disposition", b'attachment; filename=" lead  and trail "'))


def f_ct_param_2231(m):
    m["ctype"] = b"Content-Type: application/octet-stream; name*=utf-8''na%C3%AFve%20file.bin"
    m["extra"].append(("Content-Disposition", b"attachment; filename*0=\"part\"; filename*1=\"ed.txt\""))


def f_ct_param_8bit(m):
    m["ctype"] = b'Content-Type: text/plain; charset=iso-8859-1; name="caf\xe9.txt"'


def f_cdisp(m):
    m["extra"].append(("Content-Disposition", b'attachment; filename="report \\\\ 2024.pdf"; size=1234'))
    m["extra"].append(("Content-Description", b"the \"yearly\" report"))
    m["extra"].append(("Content-ID", b"<cid1@verif.example>"))


def f_cte_b64(m):
    m["extra"].append(("Content-Transfer-Encoding", b"base64"))
    m["body"] = b"aGVsbG8gd29ybGQ=\r\n"


def f_body_empty(m):
    m["body"] = b""


def f_body_ctrl(m):
    # characters str.splitlines() treats as line boundaries although they are not: FF, VT, FS, GS, RS (and a lone one at the end)
    m["body"] = b"page one\x0cpage two\r\ncol\x0bumn\x1cfs\x1dgs\x1ers\r\nlast\x0c"


def f_body_oneblank(m):
    m["body"] = b"\r\n"  # the body is a single empty line (not the same as no body at all)


def f_body_twoblank(m):
    m["body"] = b"\r\n\r\n"


def f_body_nofinalnl(m):
    m["body"] = b"last line without newline"


def f_body_lf(m):
    m["nl"] = b"\n"


def f_body_8bit(m):
    m["body"] = b"8-bit \xe9\xe8 text\r\nand \xff\xfe bytes\r\n"


def f_body_dots(m):
    m["body"] = b".leading dot\r\n..\r\n.\r\nend\r\n"


def f_body_longline(m):
    m["body"] = b"x" * 1200 + b"\r\nshort\r\n"


def f_no_headers_sep(m):
    m["body"] = b"\r\nbody starting with an empty line\r\n"


def f_hdr_none(m):
    # no header fields at all (a note saved as a file): the message starts with the empty line that ends the (empty) header, and its
    # text has an empty line of its own -- "the first empty line" of the message and "the end of the header" are the same place only here
    for k in ("from", "to", "subject", "msgid", "date"):
        m[k] = None
    m["extra"] = []
    m["ctype"] = None
    m["body"] = b"first paragraph of a note\r\n\r\nsecond paragraph\r\n"


def f_mime_empty_boundary(m):
    # a multipart whose boundary parameter is empty: the server has to invent one to render it, and must invent the same one every time
    m["ctype"] = b'Content-Type: multipart/mixed; boundary=""'
    m["body"] = b"--\r\nContent-Type: text/plain\r\n\r\npart one\r\n----\r\n"


def f_ct_subtype_quote(m):
    # (a token may not hold a quote, but the message is what it is: the server still has to answer with well-formed strings)
    m["ctype"] = b'Content-Type: text/pl"ain; charset=us-ascii'


def f_cdisp_quote(m):
    m["extra"].append(("Content-Disposition", b'at"t\\x'))


def f_cc_empty(m):
    m["extra"].append(("Cc", b""))


def f_from_two_at(m):
    m["from"] = '"a@b"@example.com'


def f_to_two_at_name(m):
    m["to"] = 'Odd "x@y" <"p@q"@example.org>, plain@example.org'


FEATURES = {k[2:]: v for k, v in list(globals().items()) if k.startswith("f_")}


def build(feats) -> tuple[bytes, dict]:
    """Returns (raw message bytes with CRLF unless body_lf, spec dict)."""
    import copy

    m = copy.deepcopy(DEFAULT)
    for f in feats:
        FEATURES[f](m)
    hdrs = []
    for name, key in (("From", "from"), ("To", "to"), ("Subject", "subject"), ("Message-ID", "msgid"), ("Date", "date")):
        if m[key] is not None:
            hdrs.append(_b(name) + b": " + _b(m[key]))
    for name, val in m["extra"]:
        hdrs.append(_b(name) + b": " + val)
    if m["ctype"]:
        hdrs.append(m["ctype"])
    raw = (b"\r\n".join(hdrs) + b"\r\n\r\n" if hdrs else b"\r\n") + m["body"]
    if m["nl"] == b"\n":
        raw = raw.replace(b"\r\n", b"\n")
    m["feats"] = list(feats)
    return raw, m


def shapes(kmax: int):
    names = sorted(FEATURES)
    yield ()
    for k in range(1, kmax + 1):
        for c in itertools.combinations(names, k):
            # two features touching the same field: the later wins; skip obviously redundant pairs
            fields = [n.split("_")[0] for n in c]
            if len(set(fields)) < len(fields) and not all(f in ("body", "ct", "mime") for f in fields):
                continue
            if sum(1 for f in fields if f == "mime") > 1:
                continue
            yield c
