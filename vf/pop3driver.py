"""POP3 events for the history explorer (C20): a POP3 session through the real POP3ClientProxy."""

from __future__ import annotations

from . import msgs
from .hdriver import HState
from .respparse import pop3_split


class PState(HState):
    pop = None  # dict(snapshot=[(uid,cid)], sizes={n:size}, deleted=set(), open=bool); set by ev_pop_open (also from a prelude)

    # ---------------------------------------------------------------------------------------
    def _pop(self, line: str, multiline: bool):
        s = self.w.sessions["P"]
        self.log(f"C[P]: {line}")
        out = s.pop3_do(line)
        self.log("S[P]: " + out[:200].decode("latin-1").replace("\r\n", "\\r\\n"))
        rep, errs = pop3_split(out, [multiline])
        for e in errs:
            self.fail("C20.malformed-reply", {"cmd": line.split()[0], "error": e.split(":")[0][:50]}, None, out[:200].decode("latin-1"))
        if not rep:
            if not s.task.done():
                self.fail("C20.no-reply", {"cmd": line.split()[0]}, None, None)
            return None, None
        st, payload = rep[0]
        return st, payload

    def ev_pop_open(self, ev):
        if self.pop is not None and self.pop["open"]:
            return
        s = self.w.connect("P", pop3=True)
        self.w.loop.settle()
        mb = self.model.mboxes["INBOX"]
        self.pop = {"snapshot": [(m.uid, m.cid) for m in mb.msgs], "sizes": {}, "deleted": set(), "open": True}
        self.log("C[P]: (POP3 session opened)")

    def _live(self):
        return self.pop is not None and self.pop["open"]

    def _size(self, where: str, n: int, size: int):
        p = self.pop
        if n in p["sizes"] and p["sizes"][n] != size:
            self.fail("C20.size-changed", {"where": where}, p["sizes"][n], size)
        p["sizes"].setdefault(n, size)

    def ev_pop_stat(self, ev):
        if not self._live():
            return
        st, _ = self._pop("STAT", False)
        if st is None:
            return
        p = self.pop
        parts = st.split()
        live = [n for n in range(1, len(p["snapshot"]) + 1) if n not in p["deleted"]]
        if not st.startswith(b"+OK") or len(parts) < 3 or int(parts[1]) != len(live):
            self.fail("C20.stat-count", {}, len(live), st.decode("latin-1"))
            return
        if all(n in p["sizes"] for n in live) and int(parts[2]) != sum(p["sizes"][n] for n in live):
            self.fail("C20.stat-total", {}, sum(p["sizes"][n] for n in live), int(parts[2]))
        p["stat_total"] = int(parts[2])

    def ev_pop_list(self, ev):
        if not self._live():
            return
        n = ev.get("n")
        p = self.pop
        if n is None:
            st, payload = self._pop("LIST", True)
            if st is None or payload is None:
                return
            got = {}
            for ln in payload:
                a, b = ln.split()
                got[int(a)] = int(b)
            live = [k for k in range(1, len(p["snapshot"]) + 1) if k not in p["deleted"]]
            if sorted(got) != live:
                self.fail("C20.list-numbers", {}, live, sorted(got))
            for k, sz in got.items():
                self._size("LIST", k, sz)
        else:
            st, _ = self._pop(f"LIST {n}", False)
            if st is None:
                return
            valid = 1 <= n <= len(p["snapshot"]) and n not in p["deleted"]
            if valid != st.startswith(b"+OK"):
                self.fail("C20.list-n-status", {"valid": valid}, valid, st.decode("latin-1"))
            elif valid:
                parts = st.split()
                if int(parts[1]) != n:
                    self.fail("C20.list-numbers", {}, n, st.decode("latin-1"))
                self._size("LIST n", n, int(parts[2]))

    def ev_pop_uidl(self, ev):
        if not self._live():
            return
        p = self.pop
        st, payload = self._pop("UIDL", True)
        if st is None or payload is None:
            return
        got = {int(ln.split()[0]): ln.split()[1].decode() for ln in payload}
        want = {k: str(p["snapshot"][k - 1][0]) for k in range(1, len(p["snapshot"]) + 1) if k not in p["deleted"]}
        if got != want:
            self.fail("C20.uidl", {}, want, got)

    def ev_pop_uidl1(self, ev):
        """UIDL n: the snapshot's UID for a listed message, -ERR otherwise."""
        if not self._live():
            return
        n = ev["n"]
        p = self.pop
        st, _ = self._pop(f"UIDL {n}", False)
        if st is None:
            return
        valid = 1 <= n <= len(p["snapshot"]) and n not in p["deleted"]
        if valid:
            parts = st.split()
            if not st.startswith(b"+OK") or len(parts) < 3 or parts[1] != str(n).encode() or parts[2] != str(p["snapshot"][n - 1][0]).encode():
                self.fail("C20.uidl", {"single": True}, f"+OK {n} {p['snapshot'][n - 1][0]}", st.decode("latin-1"))
        elif st.startswith(b"+OK"):
            self.fail("C20.retr-invalid-accepted", {"cmd": "UIDL"}, "-ERR", st.decode("latin-1"))

    def ev_pop_check(self, ev):
        """LIST n then RETR n in one event: the size a fresh session announces is what RETR delivers."""
        self.ev_pop_list({"n": ev["n"]})
        self.ev_pop_retr({"n": ev["n"]})

    def ev_pop_raw(self, ev):
        """An odd or malformed command line: exactly one -ERR (or +OK) status line, nothing marked, nothing removed."""
        if not self._live():
            return
        st, _ = self._pop(ev["line"], ev.get("multiline", False))
        if st is not None and ev.get("expect") == "err" and not st.startswith(b"-ERR"):
            self.fail("C20.malformed-command-accepted", {"cmd": ev["line"].split()[0] if ev["line"].split() else ""}, "-ERR", st.decode("latin-1"))

    def ev_pop_retr(self, ev, top=None):
        if not self._live():
            return
        n = ev["n"]
        p = self.pop
        st, payload = self._pop(f"RETR {n}" if top is None else f"TOP {n} {top}", True)
        if st is None:
            return
        valid = 1 <= n <= len(p["snapshot"]) and n not in p["deleted"]
        if not valid:
            if st.startswith(b"+OK"):
                self.fail("C20.retr-invalid-accepted", {"top": top is not None}, "-ERR", st.decode("latin-1"))
            return
        uid, cid = p["snapshot"][n - 1]
        still_there = any(m.uid == uid for m in self.model.mboxes["INBOX"].msgs)
        if not st.startswith(b"+OK"):
            if still_there:
                self.fail("C20.retr-refused", {"top": top is not None}, "+OK", st.decode("latin-1"))
            return
        body = b"\r\n".join(payload) + (b"\r\n" if payload else b"")
        got_cid = msgs.cid_of(body)
        if got_cid != cid:
            self.fail("C20.snapshot-shows-other-message", {"top": top is not None, "still_there": still_there}, cid, got_cid)
            return
        if top is None:
            parts = st.split()
            try:
                announced = int(parts[1])
            except (IndexError, ValueError):
                self.fail("C20.retr-no-size", {}, None, st.decode("latin-1"))
                return
            self._size("RETR", n, announced)
            # a message that does not end in CRLF needs one before the terminating ".CRLF": unavoidable
            padded = len(body) == announced + 2 and not body[:announced].endswith(b"\r\n")
            if len(body) != announced and not padded:
                self.fail("C20.retr-size-vs-octets", {"diff": len(body) - announced}, announced, len(body))

    def ev_pop_top(self, ev):
        self.ev_pop_retr(ev, top=ev.get("k", 1))

    def ev_pop_dele(self, ev):
        if not self._live():
            return
        n = ev["n"]
        p = self.pop
        st, _ = self._pop(f"DELE {n}", False)
        if st is None:
            return
        valid = 1 <= n <= len(p["snapshot"]) and n not in p["deleted"]
        if valid != st.startswith(b"+OK"):
            self.fail("C20.dele-status", {"valid": valid}, valid, st.decode("latin-1"))
        if valid and st.startswith(b"+OK"):
            p["deleted"].add(n)

    def ev_pop_rset(self, ev):
        if not self._live():
            return
        st, _ = self._pop("RSET", False)
        if st is not None and st.startswith(b"+OK"):
            self.pop["deleted"].clear()

    def ev_pop_noop(self, ev):
        if self._live():
            self._pop("NOOP", False)

    def ev_pop_quit(self, ev):
        if not self._live():
            return
        p = self.pop
        st, _ = self._pop("QUIT", False)
        p["open"] = False
        self.w.loop.settle()
        gone = {p["snapshot"][n - 1][0] for n in p["deleted"]}
        mb = self.model.mboxes["INBOX"]
        mb.msgs = [m for m in mb.msgs if m.uid not in gone]
        if st is None or not st.startswith(b"+OK"):
            self.fail("C20.quit-status", {}, "+OK", st.decode("latin-1") if st else None)
        self.w.sessions.pop("P", None)

    def ev_pop_drop(self, ev):
        """The connection goes away without QUIT: nothing may be removed."""
        if not self._live():
            return
        self.log("C[P]: (connection dropped)")
        self.w.sessions["P"].feed_eof()
        self.w.loop.settle()
        self.pop["open"] = False
        self.w.sessions.pop("P", None)

    def canon(self) -> str:
        base = super().canon()
        p = self.pop
        extra = "" if p is None else repr((p["open"], p["snapshot"], sorted(p["deleted"]), sorted(p["sizes"].items())))
        import hashlib

        return hashlib.sha256((base + extra).encode()).hexdigest()
