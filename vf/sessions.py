"""
Session drivers: a real asyncio.StreamReader fed by the harness + an in-memory writer,
handed to the real IMAPUserServer.new_client() so that the real IMAPClientProxy.run()
de-frames, parses and dispatches.
"""

from __future__ import annotations

import asyncio
import sys

from . import respparse
from .world import Stuck

STACK_DEPTH = 12


class FakeWriter:
    def __init__(self, sess: "Session"):
        self.sess = sess
        self.closed = False
        self.chunks: list[tuple[bytes, tuple]] = []
        self.drain_mode = 0  # 0 immediate; n>1: choice point with n options
        self.park_skip = 0  # drain_mode 9: let this many drains pass before parking (park at the n-th drain of a command)

    def write(self, data: bytes):
        if self.closed:
            return
        self.chunks.append((bytes(data), _callsite()))
        self.sess.out += bytes(data)
        self.sess.on_output()

    async def drain(self):
        w = self.sess.world
        if self.drain_mode > 1:
            # 9: park unconditionally (a scenario's set-up puts a reader into the middle of its command)
            if self.drain_mode == 7:
                # a peer that reads slowly but steadily: every drain takes a little less than push()'s 2 s write timeout
                await asyncio.sleep(getattr(self, "slow_s", 1.8))
                return None
            if self.drain_mode == 9 and self.park_skip > 0:
                self.park_skip -= 1
                return None
            c = 1 if self.drain_mode == 9 else w.sched.choose("drain", self.drain_mode, (self.sess.name,))
            if c == 1:
                # the peer reads slowly: the writing task is parked until the harness' "peer caught up"
                # event (VLoop.parked_drains) is taken
                fut = w.loop.create_future()
                w.loop.parked_drains = getattr(w.loop, "parked_drains", []) + [(f"Dr{self.sess.name}", fut)]
                await fut
            elif c == 2:
                await asyncio.sleep(3600)  # peer never reads: push()'s 2 s timeout fires
        return None

    def close(self):
        if not self.closed:
            self.closed = True
            self.sess.closed_at = self.sess.world.loop.time()
            rd = self.sess.reader
            if not rd.at_eof():
                self.sess.world.loop.call_soon(_feed_eof, rd)

    def is_closing(self):
        return self.closed

    async def wait_closed(self):
        return None

    def get_extra_info(self, key, default=None):
        if key == "peername":
            return ("10.0.0.%d" % (self.sess.idx + 1), 50000 + self.sess.idx)
        return default


def _feed_eof(rd):
    try:
        if not rd.at_eof():
            rd.feed_eof()
    except Exception:
        pass


def _callsite():
    """Chain of asimap function names on the stack of the writer.write() call."""
    f = sys._getframe(2)
    names = []
    while f is not None and len(names) < STACK_DEPTH:
        fn = f.f_code.co_filename
        if "/asimap/" in fn:
            names.append(f"{fn.rsplit('/', 1)[1][:-3]}.{f.f_code.co_name}")
        f = f.f_back
    return tuple(names)


class Session:
    def __init__(self, world, name: str, pop3: bool = False):
        self.world = world
        self.name = name
        self.idx = len(world.sessions)
        self.pop3 = pop3
        self.reader = asyncio.StreamReader(limit=2**16, loop=world.loop)
        self.writer = FakeWriter(self)
        self.out = b""
        self.parsed_upto = 0
        self.responses: list[respparse.Resp] = []
        self.syntax_errors: list[str] = []
        self.tagn = 0
        self.closed_at = None
        self.detached = False
        self.sent: list[tuple[str, bytes, int]] = []  # (tag, payload, index into responses at send)
        self.on_resp = None  # callback(resp) for online monitors
        before = set(world.srv.clients)
        world.srv.new_client(self.reader, self.writer)
        new = [t for t in world.srv.clients if t not in before]
        self.task = new[0]
        self.proxy = world.srv.clients[self.task]
        if pop3:
            # what the POP3 front-end sends first: the marker in a frame whose header carries a `+` (an IMAP client's line can not)
            self.reader.feed_data(b"{4+}\nPOP3")

    # -- output ------------------------------------------------------------------------
    def on_output(self):
        if self.pop3:
            return
        raws, rest = respparse.split_responses(self.out[self.parsed_upto :])
        for raw in raws:
            r = respparse.parse_response(raw)
            self.parsed_upto += len(raw)
            self.responses.append(r)
            for e in r.errors:
                self.syntax_errors.append(f"{e} :: {raw[:160]!r}")
            if self.on_resp is not None:
                self.on_resp(self, r)

    def pending_garbage(self) -> bytes:
        return self.out[self.parsed_upto :]

    # -- input -------------------------------------------------------------------------
    def feed_frame(self, payload: bytes):
        if self.reader._eof:  # connection already closed by the server
            return
        self.reader.feed_data(b"{%d}\n" % len(payload) + payload)

    def feed_eof(self):
        _feed_eof(self.reader)

    def new_tag(self) -> str:
        self.tagn += 1
        return f"{self.name}{self.tagn}"

    def send(self, cmd: str | bytes, tag: str | None = None) -> str:
        """Queue one complete IMAP command (as the front-end would relay it)."""
        if isinstance(cmd, str):
            cmd = cmd.encode("latin-1")
        tag = tag or self.new_tag()
        payload = tag.encode() + b" " + cmd
        self.sent.append((tag, payload, len(self.responses)))
        self.feed_frame(payload)
        return tag

    def send_raw(self, payload: bytes):
        self.sent.append(("", payload, len(self.responses)))
        self.feed_frame(payload)

    def tagged(self, tag: str):
        for r in self.responses:
            if r.kind == "tagged" and r.tag == tag:
                return r
        return None

    def done_or_closed(self, tag: str) -> bool:
        return self.tagged(tag) is not None or self.task.done()

    def do(self, cmd: str | bytes, *, horizon: float = 125.0, tag: str | None = None):
        """Send a command and run the world (default schedule unless a prefix says
        otherwise) until its tagged reply arrives, the session task ends or virtual
        `horizon` seconds pass.  Returns (tagged Resp | None, responses since send)."""
        i0 = len(self.responses)
        tag = self.send(cmd, tag)
        lp = self.world.loop
        t0 = lp.time()
        lp.run_until(lambda: self.done_or_closed(tag), horizon=t0 + horizon)
        lp.settle()
        return self.tagged(tag), self.responses[i0:]

    def idle_done(self):
        i0 = len(self.responses)
        self.send_raw(b"DONE")
        lp = self.world.loop
        lp.settle()
        return self.responses[i0:]

    # -- POP3 --------------------------------------------------------------------------
    def pop3_do(self, line: str):
        n0 = len(self.out)
        self.feed_frame(line.encode("latin-1"))
        lp = self.world.loop
        lp.run_until(lambda: False, allow_timers=False)
        return self.out[n0:]


def imap_literal(data: bytes) -> bytes:
    return b"{%d}\r\n" % len(data) + data
