"""
The closed system used by the history explorer (H) and the schedule explorer (S):
real asimap world + reference Store + per-session stream monitor, driven by events.

An event is a dict {"s": session|"env", "op": name, ...args}.  `HState.apply(ev)` runs the
event on the model and on the real server and records oracle failures;
`HState.observe()` interrogates the final state through fresh protocol sessions and the
MH folder on disk; `HState.canon()` is a (fine) canonical form of the implementation state.
Oracles read protocol output and the on-disk folder only -- never internals.
"""

from __future__ import annotations

import hashlib
import mailbox as stdmailbox
import os
import re

from . import msgs
from .refmodel import sets as S
from .refmodel.store import Refused, Store, canon_name, norm_flags
from .respparse import Atom, fetch_items
from .runner import Failure
from .sessions import imap_literal
from .world import World

MH_TO_IMAP = {"replied": "\\Answered", "flagged": "\\Flagged", "Deleted": "\\Deleted", "Draft": "\\Draft",
              "Seen": "\\Seen"}
MH_COLLIDE = {"Seen", "unseen", "Recent", "replied", "Deleted", "Draft", "flagged"}
SUBJ = "BODY.PEEK[HEADER.FIELDS (SUBJECT)]"
SUBJ_KEY = "BODY[HEADER.FIELDS (SUBJECT)]"


def parse_set(s: str):
    out = []
    for part in s.split(","):
        if ":" in part:
            a, b = part.split(":")
            out.append((a if a == "*" else int(a), b if b == "*" else int(b)))
        else:
            out.append(part if part == "*" else int(part))
    return out


MH_SEQ_FLAGS = {"flagged": "\\Flagged", "replied": "\\Answered", "Draft": "\\Draft"}


def unstorable(flags: str) -> bool:
    """Keywords an MH folder can not hold (':' separates name and messages in .mh_sequences, which is an ASCII file): the server
    may refuse them -- without any effect -- or find a way to store them."""
    return any(":" in f or not f.isascii() for f in flags.split())


class HState:
    def __init__(self, cfg: dict, prefix=None):
        """cfg: {prop, template, init: {mbox: [(uid,cid,flags,idate)...]}, uidnext:{}, mode, loopopts,
        rules: prefixes enforced}"""
        self.cfg = cfg
        self.prop = cfg["prop"]
        self.w = World(cfg["template"], prefix, mode=cfg.get("mode", "new"), loopopts=cfg.get("loopopts"))
        if cfg.get("defer_recording"):
            self.w.sched.recording = False  # set-up runs under the default schedule, unrecorded
        self.model = Store()
        for name, ms in cfg["init"].items():
            self.model.add_mbox(name, ms, uidnext=cfg.get("uidnext", {}).get(name),
                                subscribed=name in cfg.get("subscribed", ()))
        self.failures: list[Failure] = []
        self.history: list[dict] = []
        self.step = 0
        self.ledger: dict = {}  # (name, vv) -> {uid: cid}
        self.max_uidnext: dict = {}  # (name, vv) -> highest UIDNEXT announced
        self.vv_seen: dict = {}  # name -> list of vv in order of appearance
        self.cur_cmd: dict = {}  # session -> dict(kind, uid) while a command is in progress
        self.transcript: list[str] = []
        self.nresp = 0
        self.dead = False
        self.outcomes: list = []
        self.announced: dict = {}  # mailbox -> highest uid the server has shown to know
        self.pre_model = None
        self.silent_uids: dict = {}
        self.taint = ""
        self.flag_cache: dict = {}  # session -> {uid: last FLAGS it was sent}
        self.sess_pool: dict = {}
        self.latent_msgs: dict = {}  # mailbox -> same-second deliveries the server need not have noticed yet
        self.recent_wire: dict = {}  # session -> {uid: \\Recent in the last FLAGS it was sent}
        self.recent_disk: dict = {}  # (mailbox, uidvalidity, uid) -> in .mh_sequences `Recent` when last looked
        self.cmd_reported: dict = {}  # session -> uids whose flags were sent since the last check
        import asimap.mbox as _mb

        _mb.Mailbox.FOLDER_SIZE_PACK_LIMIT = cfg.get("pack_limit", 100)
        _mb.Mailbox.FOLDER_RATIO_PACK_LIMIT = cfg.get("pack_ratio", 0.8)
        self.w.start()
        for ev in cfg.get("prelude", ()):
            self.apply(ev)
        self.history = []
        self.prelude_failures = len(self.failures)

    # -- failure bookkeeping ------------------------------------------------------------------
    def fail(self, rule: str, details: dict, expected=None, observed=None):
        if self.taint and rule.startswith(("C04.", "C13.mh-flags")):
            details = dict(details, taint=self.taint)
        self.failures.append(
            Failure(rule.split(".")[0], rule, details,
                    {"driver": self.cfg.get("driver", "h"), "cfg": self.cfg.get("name"), "history": list(self.history),
                     "choices": self.w.sched.choices if self.w.sched.deviations else []},
                    expected, observed, list(self.transcript[-60:]))
        )

    # -- sessions ---------------------------------------------------------------------------------
    def sess(self, name: str):
        s = self.w.sessions.get(name)
        if s is None:
            s = self.w.connect(name)
            s.on_resp = self.on_resp
            self.model.session(name)
        return s

    def log(self, line: str):
        self.transcript.append(line)

    # -- the stream monitor (C01 I1-I3, C04 unsolicited flags) ---------------------------------------
    def on_resp(self, sess, r):
        self.log(f"S[{sess.name}]: " + r.raw[:160].decode("latin-1").rstrip())
        if r.errors:
            self.fail("C07.syntax", {"error": r.errors[0].split(" at ")[0][:60], "typ": r.typ}, None, r.raw[:200].decode("latin-1"))
        ms = self.model.session(sess.name)
        cur = self.cur_cmd.get(sess.name)
        if r.kind != "untagged":
            return
        mb = self.model.mboxes.get(ms.selected) if ms.selected else None
        if ms.selected is None and not (cur and cur.get("kind") in ("select", "examine")):
            return  # C01 speaks about selected sessions
        if r.typ == "EXISTS":
            if cur and cur.get("kind") in ("select", "examine"):
                return  # the SELECT snapshot: view is set by the driver from the model
            n = r.num
            if ms.selected is None:
                return
            if n < len(ms.view):
                self.fail("C01.exists-shrinks", {"emitter": _emitter(sess)}, f">= {len(ms.view)}", n)
                return
            if mb is None:
                return
            # the announcement may precede the command's own removals: bind against the union of
            # the model's state before and after the command in progress
            pool = set(mb.uids())
            pm = self.pre_model.mboxes.get(ms.selected) if self.pre_model is not None else None
            if pm is not None:
                pool |= set(pm.uids())
            # a queued announcement replays a past state: messages that have come and gone since are
            # candidates too (announcements are made in UID order)
            sp = self.sess_pool.setdefault(sess.name, set())
            sp |= pool
            pool = set(sp)
            cand = sorted(u for u in pool if u not in ms.view and u > ms.max_seen_uid)
            need = n - len(ms.view)
            if need > len(cand) and self.latent_msgs.get(ms.selected):
                self._promote_latent(ms.selected)  # the server noticed a same-second delivery early
                cand = sorted(u for u in set(mb.uids()) | pool if u not in ms.view and u > ms.max_seen_uid)
            if need > len(cand):
                self.fail("C01.exists-overcount", {"emitter": _emitter(sess)},
                          f"at most {len(ms.view) + len(cand)}", n)
                cand = cand + [-1] * (need - len(cand))
            ms.view.extend(cand[:need])
            ms.max_seen_uid = max([ms.max_seen_uid] + [u for u in ms.view if u > 0])
        elif r.typ == "EXPUNGE":
            n = r.num
            if cur and cur.get("kind") in ("fetch", "store", "search") and not cur.get("uid"):
                self.fail("C01.expunge-during-fetch-store-search", {"cmd": cur["kind"], "emitter": _emitter(sess)},
                          "no EXPUNGE", r.raw.decode("latin-1").strip())
            if not (1 <= n <= len(ms.view)):
                self.fail("C01.expunge-out-of-view", {"emitter": _emitter(sess)}, f"1..{len(ms.view)}", n)
                return
            u = ms.view.pop(n - 1)
            if mb is not None and u in mb.uids():
                self.fail("C01.expunge-names-live-message", {"emitter": _emitter(sess)}, None, {"uid": u, "n": n})
        elif r.typ == "FETCH":
            n = r.num
            if not (1 <= n <= len(ms.view)):
                self.fail("C01.fetch-out-of-view", {"emitter": _emitter(sess), "cmd": (cur or {}).get("kind")},
                          f"1..{len(ms.view)}", n)
                return
            try:
                it = fetch_items(r)
            except Exception:
                return
            u = ms.view[n - 1]
            if "UID" in it and int(it["UID"]) != u:
                self.fail("C01.fetch-binding", {"emitter": _emitter(sess), "cmd": (cur or {}).get("kind")},
                          {"seq": n, "uid": u}, {"seq": n, "uid": int(it["UID"])})
            if SUBJ_KEY in it and mb is not None:
                cid = msgs.cid_of(it[SUBJ_KEY])
                m = mb.by_uid(u)
                if m is not None and cid != m.cid:
                    self.fail("C03.seq-uid-content", {"cmd": (cur or {}).get("kind")}, {"uid": u, "cid": m.cid},
                              {"uid": u, "cid": cid})
            if "FLAGS" in it and mb is not None:
                m = mb.by_uid(u)
                if m is not None:
                    # queued notifications replay past states in order: only the *last* value a
                    # session is given for a message has to be current (checked when the command
                    # ends / at quiescence, see _check_reported)
                    got = norm_flags(it["FLAGS"] or [])
                    self.flag_cache.setdefault(sess.name, {})[u] = got
                    self.cmd_reported.setdefault(sess.name, set()).add(u)
                    fl = {str(x) for x in (it["FLAGS"] or [])}
                    # \Recent is never set by a client: within one session's (ordered) stream it cannot come back
                    rw = self.recent_wire.setdefault(sess.name, {})
                    rec = any(x.lower() == "\\recent" for x in fl)
                    if rec and rw.get(u) is False:
                        self.fail("C04.recent-set-again", {"cmd": (cur or {}).get("kind"), "on": "wire"}, "no \\Recent", sorted(fl))
                    rw[u] = rec
                    if ("unseen" in fl) == ("\\Seen" in fl):
                        self.fail("C04.seen-unseen-complement", {}, None, sorted(fl))

    # -- one command --------------------------------------------------------------------------------
    def _cmd(self, sn: str, text, kind: str, uid=False, pre_flags=None, horizon=125.0, refused_pre=None):
        s = self.sess(sn)
        if s.task.done() or s.writer.closed or s.reader.at_eof():
            self.model.session(sn).dead = True
            return None, []
        self.cur_cmd[sn] = {"kind": kind, "uid": uid, "pre_flags": pre_flags}
        snap = self._snap() if self.cfg.get("snapshot_refused") else None
        shown = text if isinstance(text, str) else text[:100].decode("latin-1")
        self.log(f"C[{sn}]: {shown}")
        t0 = self.w.loop.time()
        i0 = len(s.responses)
        r, resps = s.do(text, horizon=horizon)
        self.cur_cmd.pop(sn, None)
        dt = self.w.loop.time() - t0
        if r is None and not s.task.done():
            self.fail("C06.no-tagged-reply", {"cmd": kind, "uid": uid, "parked": _parked(self.w)}, "tagged reply", None)
        elif r is not None and dt > 5.0:
            self.fail("C06.slow-reply", {"cmd": kind, "uid": uid}, "< 5 s virtual", dt)
        if s.pending_garbage():
            self.fail("C07.incomplete-response", {"emitter": _emitter(s)}, None,
                      s.pending_garbage()[:120].decode("latin-1"))
        if s.task.done():
            self.model.session(sn).dead = True
        if refused_pre is not None and r is not None and r.typ in ("NO", "BAD"):
            # the model was advanced assuming success: a command refused for its arguments changed nothing, and the FLAGS it
            # flushed on the way are judged against the unchanged model
            self._rollback(refused_pre)
        self._check_reported(sn, kind)
        if snap is not None and r is not None and r.typ in ("NO", "BAD"):
            after = self._snap()
            if after != snap:
                diff = sorted(k for k in set(snap) | set(after) if snap.get(k) != after.get(k))
                self.fail("C05.refused-but-changed", {"cmd": kind, "uid": uid, "what": [d.split(":")[0] for d in diff][:3]},
                          None, diff[:10])
        return r, resps

    def _snap(self) -> dict:
        """Disk tree of the maildir + DB rows minus timestamps, flattened."""
        out = {}
        for k, v in self.w.snapshot_tree("mail").items():
            out["disk:" + k] = v
        # database: what identifies mailboxes and messages (derived bookkeeping such as counters,
        # \\Marked, mtimes may be refreshed by the resync any command triggers)
        db = self.w.db_dump()
        ids = {}
        for row in db.get("mailboxes", []):
            ids[row.get("id")] = row.get("name")
            out[f"db:mailbox:{row.get('name')}"] = repr((row.get("uid_vv"), row.get("subscribed"), row.get("uids"), row.get("msg_keys"),
                                                         row.get("next_uid"), "\\Noselect" in (row.get("attributes") or "")))
        for row in db.get("sequences", []):
            if row.get("name") in ("Recent",):
                continue
            out[f"db:seq:{ids.get(row.get('mailbox_id'))}:{row.get('name')}"] = row.get("sequence")
        return out

    def _check_reported(self, sn: str, where: str, whole_cache: bool = False):
        """The last FLAGS value sent to a session for a message must be the current one."""
        ms = self.model.session(sn)
        mb = self.model.mboxes.get(ms.selected) if ms.selected else None
        rep = self.cmd_reported.pop(sn, set())
        if mb is None or ms.dead:
            return
        cache = self.flag_cache.get(sn, {})
        for u in self.silent_uids.pop(sn, ()):
            # .SILENT: the client "has determined the updated value itself"
            m = mb.by_uid(u)
            if m is not None and u in cache:
                cache[u] = frozenset(m.flags)
        for u in sorted(cache if whole_cache else rep):
            m = mb.by_uid(u)
            if m is None or u not in cache:
                continue
            if cache[u] != frozenset(m.flags):
                self.fail("C04.stale-cache-after-sync" if whole_cache and u not in rep else "C04.reported-flags",
                          {"at": where}, sorted(m.flags), sorted(cache[u]))
                cache[u] = frozenset(m.flags)

    def _status(self, rule_prop: str, ev, r, expected: tuple, refusal_ok: bool):
        """Compare the tagged condition.  Returns 'ok' | 'refused' | 'fail'."""
        if r is None:
            return "fail"
        if r.typ in expected:
            return "ok" if r.typ == "OK" else "refused"
        if r.typ in ("NO", "BAD") and refusal_ok:
            return "refused"
        self.fail(f"{rule_prop}.status", {"op": ev["op"], "got": r.typ, "want": "/".join(expected)},
                  expected, r.raw.decode("latin-1").strip())
        return "refused" if r.typ in ("NO", "BAD") else "fail"

    # -- events ---------------------------------------------------------------------------------------
    def apply(self, ev: dict):
        self.history.append(ev)
        self.step += 1
        op = ev["op"]
        sn = ev.get("s")
        if sn and sn != "env":
            ms = self.model.session(sn)
            if ms.dead:
                return
            if ms.idling and op != "done":
                return  # a client in IDLE may only send DONE
        getattr(self, "ev_" + op)(ev)
        self._note_uids()

    def _note_uids(self):
        for sn, ms in self.model.sess.items():
            mb = self.model.mboxes.get(ms.selected) if ms.selected else None
            if mb is not None:
                self.sess_pool.setdefault(sn, set()).update(mb.uids())

    def _model_try(self, fn):
        pre = self.model.clone()
        self.pre_model = pre
        try:
            res = fn()
            return pre, res, ("OK",)
        except Refused as e:
            self.model = pre
            return pre, None, e.kinds

    def _rollback(self, pre):
        # keep session views as replayed from the stream; restore everything else
        views = {k: (list(v.view), v.max_seen_uid) for k, v in self.model.sess.items()}
        self.model = pre
        for k, (vw, mx) in views.items():
            if k in self.model.sess:
                self.model.sess[k].view, self.model.sess[k].max_seen_uid = vw, mx

    def learn_vv(self, name: str, vv: int, created: bool = False):
        name = canon_name(name)
        mb = self.model.mboxes.get(name)
        hist = self.vv_seen.setdefault(name, [])
        if mb is not None:
            if mb.vv is None:
                mb.vv = vv
                if vv in hist:
                    self.fail("C02.uidvalidity-reused", {"how": "recreated"}, f"not in {hist}", vv)
                elif hist and vv <= max(hist):
                    self.fail("C02.uidvalidity-not-larger", {}, f"> {max(hist)}", vv)
                hist.append(vv)
            elif mb.vv != vv:
                self.fail("C02.uidvalidity-changed", {}, mb.vv, vv)
                mb.vv = vv
                hist.append(vv)

    def learn_uidnext(self, name: str, vv, uidnext: int, where: str):
        name = canon_name(name)
        mb = self.model.mboxes.get(name)
        key = (name, vv)
        if mb is not None:
            mx = max([0] + list(self.ledger.get(key, {})) + mb.uids())
            if uidnext <= mx:
                self.fail("C02.uidnext-not-above-assigned", {"where": where}, f"> {mx}", uidnext)
        prev = self.max_uidnext.get(key)
        if prev is not None and uidnext < prev:
            self.fail("C02.uidnext-decreased", {"where": where}, f">= {prev}", uidnext)
        self.max_uidnext[key] = max(prev or 0, uidnext)

    def reveal(self, name: str, vv, uid: int, cid: str | None, where: str):
        if cid is None or vv is None:
            return
        key = (canon_name(name), vv)
        d = self.ledger.setdefault(key, {})
        if uid in d and d[uid] != cid:
            self.fail("C02.uid-reused", {"where": where}, {"uid": uid, "cid": d[uid]}, {"uid": uid, "cid": cid})
        d[uid] = cid

    # selection -------------------------------------------------------------------------------------------
    def ev_select(self, ev, readonly=False):
        sn, name = ev["s"], ev["m"]
        pre, mb, exp = self._model_try(lambda: self.model.select(sn, name, readonly))
        r, resps = self._cmd(sn, f"{'EXAMINE' if readonly else 'SELECT'} {_q(name)}", "examine" if readonly else "select")
        st = self._status("C06", ev, r, exp, False)
        ms = self.model.session(sn)
        self.flag_cache[sn] = {}
        self.recent_wire[sn] = {}
        self.sess_pool[sn] = set()  # UIDs the selected mailbox has held since this selection
        if st == "ok" and mb is not None:
            exists = vv = un = None
            for x in resps:
                if x.kind == "untagged" and x.typ == "EXISTS":
                    exists = x.num
                if x.kind == "untagged" and x.typ == "OK" and x.code:
                    if str(x.code[0]).upper() == "UIDVALIDITY":
                        vv = int(x.code[1])
                    if str(x.code[0]).upper() == "UIDNEXT":
                        un = int(x.code[1])
            if vv is not None:
                self.learn_vv(name, vv)
            if un is not None:
                self.learn_uidnext(name, mb.vv, un, "SELECT")
            if exists != len(mb.msgs):
                self.fail("C01.select-count", {}, len(mb.msgs), exists)
                ms.view = (mb.uids() + [-1] * 50)[: exists or 0]
        elif st != "ok":
            ms.selected, ms.view = None, []

    def ev_examine(self, ev):
        self.ev_select(ev, readonly=True)

    def ev_close(self, ev):
        sn = ev["s"]
        orphan = getattr(self.model.session(sn), "orphaned", False)
        pre, gone, exp = self._model_try(lambda: self.model.close(sn))
        r, _ = self._cmd(sn, "CLOSE", "close")
        if orphan:  # its mailbox was deleted under it: any answer (incl. BYE) is fine
            self.model.session(sn).orphaned = False
            return
        self._status("C06", ev, r, exp, False)

    def ev_unselect(self, ev):
        sn = ev["s"]
        orphan = getattr(self.model.session(sn), "orphaned", False)
        pre, _, exp = self._model_try(lambda: self.model.unselect(sn))
        r, _ = self._cmd(sn, "UNSELECT", "unselect")
        if orphan:
            self.model.session(sn).orphaned = False
            return
        self._status("C06", ev, r, exp, False)

    def _known_uid(self, name) -> int:
        """Highest UID of `name` the server has shown to know (template contents, APPENDUID/COPYUID, any
        session's replayed view)."""
        init = max([m[0] for m in self.cfg.get("init", {}).get(name, ())] or [0]) if name in self.cfg.get("init", {}) else 0
        return max([init, self.announced.get(name, 0)] + [s2.max_seen_uid for s2 in self.model.sess.values() if s2.selected == name])

    def _flush_check(self, sn: str, where: str, strict: bool = True):
        """strict: the view must equal the model list.  not strict (IDLE entry/exit, which do
        not make the server look at the folder): external deliveries that no session has been
        told about yet may still be missing."""
        ms = self.model.session(sn)
        if ms.selected is None or ms.dead:
            return
        mb = self.model.mboxes.get(ms.selected)
        if mb is None:
            return
        want = mb.uids()
        if ms.view == want:
            return
        if not strict:
            told = max([0] + [s2.max_seen_uid for s2 in self.model.sess.values() if s2.selected == ms.selected]
                       + [self.announced.get(ms.selected, 0)])
            k = len([u for u in want if u <= told])
            if ms.view == want[: len(ms.view)] and len(ms.view) >= k:
                return
        self.fail("C01.flush-mismatch", {"after": where}, want, list(ms.view))

    def ev_noop(self, ev):
        sn = ev["s"]
        r, _ = self._cmd(sn, "NOOP", "noop")
        if self._status("C06", ev, r, ("OK",), False) == "ok":
            self._flush_check(sn, "NOOP")
            self._check_reported(sn, "NOOP", whole_cache=True)

    def ev_check(self, ev):
        sn = ev["s"]
        ms = self.model.session(sn)
        exp = ("OK",) if ms.selected else ("NO", "BAD")
        r, _ = self._cmd(sn, "CHECK", "check")
        if self._status("C06", ev, r, exp, False) == "ok":
            self._flush_check(sn, "CHECK")
            self._check_reported(sn, "CHECK", whole_cache=True)

    def ev_idle(self, ev):
        sn = ev["s"]
        s = self.sess(sn)
        ms = self.model.session(sn)
        if ms.idling:
            return
        self.log(f"C[{sn}]: IDLE")
        i0 = len(s.responses)
        tag = s.send("IDLE")
        self.idle_tag = getattr(self, "idle_tag", {})
        self.idle_tag[sn] = tag
        self.w.loop.settle()
        if not any(x.kind == "cont" for x in s.responses[i0:]):
            self.fail("C06.idle-no-continuation", {}, "+ idling", None)
            return
        ms.idling = True
        self._flush_check(sn, "IDLE", strict=False)

    def ev_done(self, ev):
        sn = ev["s"]
        s = self.sess(sn)
        ms = self.model.session(sn)
        if not ms.idling:
            return
        self.log(f"C[{sn}]: DONE")
        s.send_raw(b"DONE")
        tag = self.idle_tag.get(sn)
        self.w.loop.run_until(lambda: s.done_or_closed(tag), horizon=self.w.loop.time() + 125)
        self.w.loop.settle()
        ms.idling = False
        r = s.tagged(tag)
        if r is None or r.typ != "OK":
            self.fail("C06.idle-not-terminated", {}, "tagged OK after DONE", str(r))
        else:
            self._flush_check(sn, "DONE", strict=False)

    def idle_quiescent_checks(self, strict=False):
        for sn, ms in self.model.sess.items():
            if ms.idling and not ms.dead:
                self._flush_check(sn, "IDLE-quiescent", strict=strict)
                self._check_reported(sn, "IDLE-quiescent", whole_cache=True)

    # messages ----------------------------------------------------------------------------------------------
    def ev_append(self, ev):
        sn, name = ev["s"], ev["m"]
        cid = ev.get("cid") or f"h{self.step}"
        flags = ev.get("flags", "")
        idn = 1000 + self.step
        pre, res, exp = self._model_try(lambda: self.model.append(name, cid, flags.split(), msgs.idate_epoch(idn)))
        data = msgs.make(cid)
        r, resps = self._cmd(sn, f"APPEND {_q(name)} ({flags}) {msgs.idate(idn)} ".encode() + imap_literal(data), "append")
        st = self._status("C05", ev, r, exp, unstorable(flags))
        if st == "refused" and exp == ("OK",):
            self._rollback(pre)
        if st == "ok" and res is not None:
            mb, m = res
            code = [str(x) for x in (r.code or [])]
            if len(code) == 3 and code[0].upper() == "APPENDUID":
                self.learn_vv(name, int(code[1]))
                if int(code[2]) != m.uid:
                    self.fail("C02.appenduid", {}, m.uid, int(code[2]))
                self.reveal(name, int(code[1]), int(code[2]), cid, "APPENDUID")
                self.announced[canon_name(name)] = max(self.announced.get(canon_name(name), 0), int(code[2]))
            else:
                self.fail("C02.appenduid-missing", {}, "APPENDUID", code)
        self.idle_quiescent_checks()

    def _which(self, sn: str, which: str, uid: bool) -> str:
        """Symbolic message set -> concrete set text."""
        ms = self.model.session(sn)
        mb = self.model.mboxes.get(ms.selected) if ms.selected else None
        if not uid:
            return which
        us = mb.uids() if mb else []
        if which == "1":
            return str(us[0] if us else 1)
        if which == "2":
            return str(us[1] if len(us) > 1 else 99)
        if which == "*":
            return "*"
        if which == "1:*":
            return "1:*"
        if which == "last":
            return str(us[-1] if us else 1)
        return which

    def _refusal_ok(self, sn: str, uid: bool, elems=None) -> bool:
        """A non-UID command may be refused (no effect) when the session still has EXPUNGEs to
        receive, or when it names a number beyond what the session has been told exists."""
        ms = self.model.session(sn)
        if uid or ms.selected is None:
            return False
        if not self.model.view_in_sync(ms):
            return True
        if elems is not None:
            for e in elems:
                for x in (e if isinstance(e, tuple) else (e,)):
                    if x != "*" and x > len(ms.view):
                        return True
                    if x == "*" and not ms.view:
                        return True
        return False

    def ev_store(self, ev):
        sn, uid = ev["s"], ev.get("uid", False)
        setstr = self._which(sn, ev["set"], uid)
        mode, flags, silent = ev.get("mode", "+"), ev["flags"], ev.get("silent", False)
        if set(flags.split()) & MH_COLLIDE:
            self.taint = "keyword-equals-MH-sequence-name"
        elems = parse_set(setstr)
        ms = self.model.session(sn)
        refusal_ok = self._refusal_ok(sn, uid, elems) or unstorable(flags)
        mbm = self.model.mboxes.get(ms.selected) if ms.selected else None
        pre_flags = {m.uid: frozenset(m.flags) for m in mbm.msgs} if mbm else {}
        pre, tgt, exp = self._model_try(lambda: self.model.store(sn, elems, mode, flags.split(), uid))
        item = {"+": "+FLAGS", "-": "-FLAGS", "=": "FLAGS"}[mode] + (".SILENT" if silent else "")
        if silent and tgt is not None and not ms.readonly:
            self.silent_uids[sn] = [m.uid for m in tgt]
        self.check_recent_disk("before-store")
        rec0 = self._disk_recent(ms.selected) if ms.selected else None
        known0 = self._known_uid(ms.selected) if ms.selected else 0
        r, resps = self._cmd(sn, f"{'UID ' if uid else ''}STORE {setstr} {item} ({flags})", "store", uid, pre_flags,
                             refused_pre=pre if (exp == ("OK",) and refusal_ok) else None)
        rec1 = self._disk_recent(ms.selected) if ms.selected else None
        if rec0 is not None and rec1 is not None:
            # (a delivery the server had not shown to know yet legitimately becomes \\Recent when the
            # command's resync finds it)
            known = known0
            ch = sorted(u for u in rec0 if u in rec1 and rec0[u] != rec1[u] and (rec0[u] or u <= known))
            if ch:
                self.fail("C04.recent-changed-by-store", {"mode": mode, "uid": uid, "set": [rec1[u] for u in ch][:1]},
                          {u: rec0[u] for u in ch}, {u: rec1[u] for u in ch})
        if ms.readonly and r is not None:
            st = "ok" if r.typ == "OK" else "refused"
        else:
            st = self._status("C04", ev, r, exp, refusal_ok)
        if st == "refused" and exp == ("OK",):
            self._rollback(pre)
        if st == "ok" and tgt is not None and not ms.readonly:
            rep = [x.num for x in resps if x.kind == "untagged" and x.typ == "FETCH"]
            want = sorted(ms.view.index(m.uid) + 1 for m in tgt if m.uid in ms.view)
            # other (unsolicited) FETCH responses may be interleaved; each is checked by the monitor
            if not silent and not set(want) <= set(rep):
                self.fail("C04.store-not-reported", {"uid": uid, "mode": mode}, want, sorted(rep))
        self.idle_quiescent_checks()

    def ev_fetch(self, ev):
        sn, uid = ev["s"], ev.get("uid", False)
        setstr = self._which(sn, ev["set"], uid)
        items = ev.get("items", "(UID)")
        elems = parse_set(setstr)
        ms = self.model.session(sn)
        refusal_ok = self._refusal_ok(sn, uid, elems)
        sets_seen = "BODY[" in items.replace("BODY.PEEK[", "") or "RFC822" in items.replace("RFC822.SIZE", "").replace("RFC822.HEADER", "")
        mbm = self.model.mboxes.get(ms.selected) if ms.selected else None
        pre_flags = {m.uid: frozenset(m.flags) for m in mbm.msgs} if mbm else {}
        pre, tgt, exp = self._model_try(lambda: self.model.fetch(sn, elems, uid, sets_seen))
        r, resps = self._cmd(sn, f"{'UID ' if uid else ''}FETCH {setstr} {items}", "fetch", uid, pre_flags)
        view0 = list(ms.view)  # no EXPUNGE can have been sent during a FETCH; EXISTS may have extended it
        empty_ok = mbm is not None and not mbm.msgs
        st = self._status("C06", ev, r, exp, refusal_ok or empty_ok)
        if uid and r is not None and r.typ in ("NO", "BAD") and exp == ("OK",) and not (refusal_ok or empty_ok):
            # the UID form of a FETCH is never refused for what the numbering is (UIDs that do not exist are skipped): a refusal
            # means the UID table and the message list no longer correspond
            self.fail("C03.uid-fetch-refused", {"set": ev["set"]}, "OK", r.raw.decode("latin-1").strip()[:160])
        if st == "refused" and exp == ("OK",):
            self._rollback(pre)
        if st == "ok" and tgt is not None:
            got = set()
            for x in resps:
                if x.kind == "untagged" and x.typ == "FETCH" and 1 <= x.num <= len(view0):
                    try:
                        it = fetch_items(x)
                    except Exception:
                        continue
                    data_keys = [k for k in it if k.startswith("BODY[") or k.startswith("RFC822")]
                    if "UID" in it or data_keys:
                        got.add(view0[x.num - 1])
                        cid = None
                        for k in data_keys:
                            if isinstance(it[k], (bytes, bytearray)):
                                cid = cid or msgs.cid_of(it.get(k))
                        if cid and mbm is not None:
                            self.reveal(mbm.name, mbm.vv, view0[x.num - 1] if "UID" not in it else int(it["UID"]), cid, "FETCH")
            want = {m.uid for m in tgt}
            if ("UID" in items or "BODY" in items or "RFC822" in items) and got != want:
                self.fail("C03.fetch-addresses", {"uid": uid, "set": ev["set"]}, sorted(want), sorted(got))
        self.idle_quiescent_checks()

    def ev_search(self, ev):
        sn, uid = ev["s"], ev.get("uid", False)
        key = ev.get("key", "ALL")
        ms = self.model.session(sn)
        refusal_ok = self._refusal_ok(sn, uid)
        exp = ("OK",) if ms.selected else ("NO", "BAD")
        mbm = self.model.mboxes.get(ms.selected) if ms.selected else None
        r, resps = self._cmd(sn, f"{'UID ' if uid else ''}SEARCH {key}", "search", uid)
        st = self._status("C06", ev, r, exp, refusal_ok)
        if st == "ok" and mbm is not None:
            res = None
            for x in resps:
                if x.kind == "untagged" and x.typ == "SEARCH":
                    res = [int(v) for v in x.data]
            want_u = [m.uid for m in mbm.msgs if _search_match(key, m)]
            if res is None:
                res = []
            if uid:
                if sorted(res) != want_u:
                    self.fail("C14.search-result", {"key": key, "uid": True}, want_u, res)
            else:
                got_u = [ms.view[i - 1] if 1 <= i <= len(ms.view) else -i for i in res]
                if sorted(got_u) != want_u:
                    self.fail("C01.search-numbers", {"key": key}, want_u, got_u)

    def ev_expunge(self, ev):
        sn = ev["s"]
        uidset = ev.get("uidset")
        ms = self.model.session(sn)
        setstr = self._which(sn, uidset, True) if uidset else None
        pre, gone, exp = self._model_try(lambda: self.model.expunge(sn, parse_set(setstr) if setstr else None))
        r, resps = self._cmd(sn, f"UID EXPUNGE {setstr}" if setstr else "EXPUNGE", "expunge", bool(setstr))
        st = self._status("C05", ev, r, exp, False)
        if st == "ok":
            self._flush_check(sn, "EXPUNGE", strict=False)  # not one of the property's flush points: an unannounced delivery may still be missing
        elif st == "refused" and exp == ("OK",):
            self._rollback(pre)
        self.idle_quiescent_checks()

    def ev_copy(self, ev, move=False):
        sn, uid, dst = ev["s"], ev.get("uid", False), ev["dst"]
        setstr = self._which(sn, ev["set"], uid)
        elems = parse_set(setstr)
        ms = self.model.session(sn)
        refusal_ok = self._refusal_ok(sn, uid, elems)
        pre, res, exp = self._model_try(lambda: self.model.copy(sn, elems, dst, uid, move))
        r, resps = self._cmd(sn, f"{'UID ' if uid else ''}{'MOVE' if move else 'COPY'} {setstr} {_q(dst)}",
                             "move" if move else "copy", uid)
        empty = res is not None and not res[0]
        st = self._status("C05", ev, r, exp, refusal_ok or empty)
        if st == "refused" and exp == ("OK",):
            self._rollback(pre)
        if st == "ok" and res is not None and res[0]:
            tgt, new, d = res
            code = None
            for x in list(resps) + [r]:
                if x.code and str(x.code[0]).upper() == "COPYUID":
                    code = [str(c) for c in x.code]
            if code is None or len(code) != 4:
                self.fail("C02.copyuid-missing", {"move": move}, "COPYUID", code)
            else:
                self.learn_vv(dst, int(code[1]))
                src_u = sorted(S.denote_uid(parse_set(code[2]), list(range(1, 10000))))
                dst_u = sorted(S.denote_uid(parse_set(code[3]), list(range(1, 10000))))
                if src_u != sorted(m.uid for m in tgt) or dst_u != [m.uid for m in new]:
                    self.fail("C02.copyuid", {"move": move}, {"src": [m.uid for m in tgt], "dst": [m.uid for m in new]},
                              {"src": code[2], "dst": code[3]})
                for m in new:
                    self.reveal(dst, int(code[1]), m.uid, m.cid, "COPYUID")
                    self.announced[canon_name(dst)] = max(self.announced.get(canon_name(dst), 0), m.uid)
            if move:
                self._flush_check(sn, "MOVE", strict=False)
        self.idle_quiescent_checks()

    def ev_move(self, ev):
        self.ev_copy(ev, move=True)

    def ev_del(self, ev):
        """Composite: flag the messages `set` \\Deleted (silently) and EXPUNGE."""
        self.ev_store({"s": ev["s"], "op": "store", "set": ev["set"], "mode": "+", "flags": "\\Deleted", "silent": True,
                       "uid": ev.get("uid", False)})
        self.ev_expunge({"s": ev["s"], "op": "expunge"})

    # namespace -----------------------------------------------------------------------------------------------------
    def _ns(self, ev, text, fn):
        sn = ev["s"]
        pre, res, exp = self._model_try(fn)
        r, resps = self._cmd(sn, text, ev["op"])
        # MH keeps messages as all-digit entries of the folder: a server may refuse to make a mailbox
        # whose name has such a component (asimap documents this for the whole name); if it accepts, the
        # mailbox has to work like any other
        target = ev.get("to") if ev["op"] == "rename" else ev.get("m")
        digits = ev["op"] in ("create", "rename") and any(c.isdigit() for c in canon_name(target or "").split("/"))
        st = self._status("C17", ev, r, exp, digits)
        if st == "refused" and exp == ("OK",):
            self._rollback(pre)
        elif st == "ok" and exp != ("OK",):
            pass
        # a session whose mailbox was deleted under it is told BYE by its next command
        return st, res

    def ev_create(self, ev):
        self._ns(ev, f"CREATE {_q(ev['m'])}", lambda: self.model.create(ev["m"]))

    def ev_delete(self, ev):
        self._ns(ev, f"DELETE {_q(ev['m'])}", lambda: self.model.delete(ev["m"]))

    def ev_rename(self, ev):
        self._ns(ev, f"RENAME {_q(ev['m'])} {_q(ev['to'])}", lambda: self.model.rename(ev["m"], ev["to"]))

    def ev_subscribe(self, ev):
        self._ns(ev, f"SUBSCRIBE {_q(ev['m'])}", lambda: self.model.subscribe(ev["m"], True))

    def ev_unsubscribe(self, ev):
        self._ns(ev, f"UNSUBSCRIBE {_q(ev['m'])}", lambda: self.model.subscribe(ev["m"], False))

    # environment ---------------------------------------------------------------------------------------------------
    def ev_deliver(self, ev):
        name = ev["m"]
        n = ev.get("n", 1)
        unseen = ev.get("unseen", True)
        folder = "inbox" if canon_name(name) == "INBOX" else name
        mbm = self.model.mboxes.get(canon_name(name))
        if mbm is None or mbm.noselect or not os.path.isdir(self.w.folder_path(folder)):
            return  # no such folder: the agent has nowhere to deliver
        for i in range(n):
            cid = ev["cids"][i] if ev.get("cids") else f"d{self.step}x{i}"
            idn = 5000 + self.step * 10 + i
            self.w.deliver(folder, msgs.make(cid, crlf=False), unseen=unseen, mtime=msgs.idate_epoch(idn), seqs=ev.get("seqs", ()))
            self.model.deliver(name, cid, unseen, msgs.idate_epoch(idn), flags=[MH_SEQ_FLAGS[q] for q in ev.get("seqs", ())])
        self.log(f"ENV: deliver {n} to {name} unseen={unseen}" + (f" sequences={list(ev['seqs'])}" if ev.get("seqs") else ""))

    def _promote_latent(self, name: str):
        """A same-second delivery becomes part of the reference store (the server has shown to know it,
        or the folder's mtime is about to advance)."""
        mb = self.model.mboxes.get(canon_name(name))
        for cid, unseen, idate, fl in self.latent_msgs.pop(canon_name(name), []):
            if mb is not None and all(m.cid != cid for m in mb.msgs):
                self.model.deliver(name, cid, unseen, idate, flags=fl)

    def ev_latent(self, ev):
        """Composite: an MH agent delivers within the second of the folder's current mtime (so the
        server need not notice), one command on explicitly numbered messages runs, then the mtime advances.
        Whether the server notices the message early (it announces it: EXISTS) or late is its choice."""
        name = canon_name(ev["m"])
        folder = "inbox" if name == "INBOX" else name
        unseen = ev.get("unseen", True)
        cid = f"L{self.step}"
        idate = msgs.idate_epoch(7000 + self.step)
        self.w.deliver(folder, msgs.make(cid, crlf=False), unseen=unseen, mtime=idate, tick=False, seqs=ev.get("seqs", ()))
        self.latent_msgs.setdefault(name, []).append((cid, unseen, idate, [MH_SEQ_FLAGS[q] for q in ev.get("seqs", ())]))
        self.log(f"ENV: deliver 1 to {name} unseen={unseen} within the second of the folder's mtime" + (f" sequences={list(ev['seqs'])}" if ev.get("seqs") else ""))
        inner = ev["then"]
        if inner["s"] == "env":
            # time passes before the mtime advances: the management task's idle branch (resync that does not look, pack) runs
            getattr(self, "ev_" + inner["op"])(inner)
        else:
            ms = self.model.session(inner["s"])
            if not (ms.dead or ms.idling):
                getattr(self, "ev_" + inner["op"])(inner)
        self._promote_latent(name)
        self.w.touch(folder)
        self.log(f"ENV: tick {name}")

    def ev_tick(self, ev):
        folder = "inbox" if canon_name(ev["m"]) == "INBOX" else ev["m"]
        self.w.touch(folder)
        self.log(f"ENV: tick {ev['m']}")

    def ev_poll(self, ev):
        """Let virtual time pass with no commands: management tasks' timeout branches run."""
        self.log(f"ENV: {ev.get('dt', 6)} s pass")
        self.w.loop.advance(ev.get("dt", 6.0))
        self.w.loop.settle()
        self.idle_quiescent_checks(strict=True)

    def ev_restart(self, ev):
        self.log("ENV: orderly restart")
        self.w.restart()
        self.model.restart()
        self.cur_cmd = {}

    # -- end-of-history observation -----------------------------------------------------------------------------------
    def observe(self, checks=("C01", "C02", "C03", "C04", "C05", "C13")):
        if self.dead:
            return
        if self.cfg.get("observe_mode") == "restart-diff":
            return self.observe_restart_diff()
        # (a) every live selected session: NOOP; FETCH 1:* (UID) must give the model list
        for sn, ms in list(self.model.sess.items()):
            if ms.dead or ms.selected is None:
                continue
            if ms.idling:
                self.ev_done({"s": sn, "op": "done"})
            r, _ = self._cmd(sn, "NOOP", "noop")
            if r is None or r.typ != "OK":
                continue
            self._flush_check(sn, "final-NOOP")
            self._check_reported(sn, "final-NOOP", whole_cache=True)
            mb = self.model.mboxes.get(ms.selected)
            if mb is None:
                continue
            if mb.msgs:
                r, resps = self._cmd(sn, "FETCH 1:* (UID)", "fetch", False)
                got = []
                for x in resps:
                    if x.kind == "untagged" and x.typ == "FETCH":
                        try:
                            got.append((x.num, int(fetch_items(x)["UID"])))
                        except Exception:
                            pass
                want = [(i + 1, u) for i, u in enumerate(mb.uids())]
                if r is None or r.typ != "OK" or got != want:
                    self.fail("C01.final-view", {"tagged": r.typ if r else None}, want, got)
        # (b) a fresh observer
        obs = self.observe_store()
        self.compare_store(obs, checks)
        # (c) the MH side
        if "C13" in checks:
            self.compare_mh()
        if "C04" in checks or "C13" in checks:
            self.check_recent_disk("observe")
        if "C17" in checks:
            self.observe_namespace()
        if "C16" in checks:
            self.observe_items()

    def observe_items(self, sname="I"):
        """C16 on whatever state a history has reached: for every message of every selectable mailbox the
        data items agree with each other (RFC822.SIZE = octets of BODY[] = BODY[HEADER] + BODY[TEXT],
        RFC822 = BODY[]) and BODY[] is the stored message the reference model expects at that UID."""
        o = self.sess(sname)
        o.on_resp = None
        for name, mb in self.model.mboxes.items():
            if mb.noselect or not mb.msgs:
                continue
            r, _ = o.do(f"EXAMINE {_q(name)}")
            if r is None or r.typ != "OK":
                continue
            r, resps = o.do("FETCH 1:* (UID RFC822.SIZE BODY.PEEK[] BODY.PEEK[HEADER] BODY.PEEK[TEXT] ENVELOPE BODYSTRUCTURE)")
            for x in resps:
                if x.kind != "untagged" or x.typ != "FETCH" or x.errors:
                    continue
                try:
                    it = fetch_items(x)
                except Exception:
                    continue
                if "BODY[]" not in it or "UID" not in it:
                    continue
                full = bytes(it["BODY[]"] or b"")
                det = {"mbox": _mclass(name)}
                if "RFC822.SIZE" in it and int(it["RFC822.SIZE"]) != len(full):
                    self.fail("C16.size-vs-body", det, len(full), int(it["RFC822.SIZE"]))
                if it.get("BODY[HEADER]") is not None and it.get("BODY[TEXT]") is not None and bytes(it["BODY[HEADER]"]) + bytes(it["BODY[TEXT]"]) != full:
                    self.fail("C16.header-plus-text", det, len(full), len(bytes(it["BODY[HEADER]"])) + len(bytes(it["BODY[TEXT]"])))
                m = mb.by_uid(int(it["UID"]))
                if m is not None and msgs.cid_of(full) != m.cid:
                    self.fail("C16.body-of-other-message", det, m.cid, msgs.cid_of(full))
                # the structural items describe this message, not one that used to have its number: the decoded ENVELOPE subject
                # and message-id carry the content id, BODYSTRUCTURE's octet count is that of BODY[TEXT]
                env = it.get("ENVELOPE")
                if m is not None and isinstance(env, list) and len(env) == 10:
                    subj = env[1]
                    subj = bytes(subj) if isinstance(subj, (bytes, bytearray)) else str(subj).encode("latin-1")
                    mid = env[9]
                    mid = bytes(mid) if isinstance(mid, (bytes, bytearray)) else str(mid).encode("latin-1")
                    if msgs.cid_of(subj) != m.cid or f"<{m.cid}@".encode() not in mid:
                        self.fail("C07.envelope-of-other-message", det, m.cid, (subj[:60].decode("latin-1"), mid[:60].decode("latin-1")))
                bs = it.get("BODYSTRUCTURE")
                if isinstance(bs, list) and len(bs) >= 7 and it.get("BODY[TEXT]") is not None and not isinstance(bs[0], list):
                    try:
                        if int(str(bs[6])) != len(bytes(it["BODY[TEXT]"])):
                            self.fail("C07.bodystructure-of-other-message", det, len(bytes(it["BODY[TEXT]"])), int(str(bs[6])))
                    except ValueError:
                        pass
            # the same sizes drive SEARCH LARGER / SMALLER
            sizes = {}
            for x in resps:
                if x.kind == "untagged" and x.typ == "FETCH" and not x.errors:
                    try:
                        it = fetch_items(x)
                        sizes[x.num] = len(bytes(it["BODY[]"] or b""))
                    except Exception:
                        pass
            if sizes:
                cut = sorted(sizes.values())[len(sizes) // 2]
                r, resps = o.do(f"SEARCH LARGER {cut}")
                got = sorted(int(v) for x in resps if x.kind == "untagged" and x.typ == "SEARCH" for v in x.data)
                want = sorted(n for n, z in sizes.items() if z > cut)
                if r is not None and r.typ == "OK" and got != want:
                    self.fail("C16.search-larger-vs-body", {"mbox": _mclass(name)}, want, got)

    def observe_list(self, sname="O"):
        """LIST "" * and LSUB "" * as {name: frozenset(attributes)} (minus \\Marked/\\Unmarked)."""
        o = self.sess(sname)
        o.on_resp = None
        out = {}
        for cmd in ("LIST", "LSUB"):
            r, resps = o.do(f'{cmd} "" "*"')
            d = {}
            dup = []
            for x in resps:
                if x.kind == "untagged" and x.typ == cmd and len(x.data) >= 3:
                    nm = x.data[2]
                    nm = bytes(nm).decode("latin-1") if isinstance(nm, bytes) else str(nm)
                    at = frozenset(str(a) for a in (x.data[0] or []) if str(a) not in ("\\Marked", "\\Unmarked"))
                    if nm in d:
                        dup.append(nm)
                    d[nm] = at
            out[cmd] = d
            out[cmd + "_dups"] = dup
            out[cmd + "_status"] = r.typ if r else None
        return out

    def observe_store(self, sname="O", names=None):
        o = self.sess(sname)
        o.on_resp = None
        out = {}
        if names is None:
            names = [n for n, mb in self.model.mboxes.items() if not mb.noselect]
        for name in names:
            rec = {"exists": True}
            r, resps = o.do(f"STATUS {_q(name)} (MESSAGES UIDNEXT UIDVALIDITY UNSEEN)")
            if r is None or r.typ != "OK":
                rec["exists"] = False
                out[name] = rec
                continue
            for x in resps:
                if x.kind == "untagged" and x.typ == "STATUS" and len(x.data) == 2:
                    kv = x.data[1]
                    rec["status"] = {str(kv[i]).upper(): int(kv[i + 1]) for i in range(0, len(kv), 2)}
            r, resps = o.do(f"EXAMINE {_q(name)}")
            if r is None or r.typ != "OK":
                rec["exists"] = False
                out[name] = rec
                continue
            for x in resps:
                if x.kind == "untagged" and x.typ == "EXISTS":
                    rec["exists_n"] = x.num
                if x.kind == "untagged" and x.typ == "OK" and x.code:
                    k = str(x.code[0]).upper()
                    if k in ("UIDVALIDITY", "UIDNEXT"):
                        rec[k] = int(x.code[1])
            ms = []
            if rec.get("exists_n"):
                r, resps = o.do(f"UID FETCH 1:* (UID INTERNALDATE {SUBJ})")
                byseq = {}
                for x in resps:
                    if x.kind == "untagged" and x.typ == "FETCH":
                        it = fetch_items(x)
                        if "UID" not in it:
                            self.fail("C03.uid-not-a-number", {"where": "UID FETCH"}, "UID <nz-number>", x.raw[:80].decode("latin-1"))
                            continue
                        byseq[x.num] = {"uid": int(it["UID"]), "cid": msgs.cid_of(it.get(SUBJ_KEY)),
                                        "idate": bytes(it["INTERNALDATE"]).decode() if it.get("INTERNALDATE") else None}
                r, resps = o.do("UID SEARCH ALL")
                for x in resps:
                    if x.kind == "untagged" and x.typ == "SEARCH":
                        rec["uid_search_all"] = [int(v) for v in x.data]
                r, resps = o.do("FETCH 1:* (UID FLAGS)")
                for x in resps:
                    if x.kind == "untagged" and x.typ == "FETCH":
                        it = fetch_items(x)
                        if "UID" not in it:
                            continue  # unsolicited flag update
                        if x.num in byseq and int(it["UID"]) == byseq[x.num]["uid"]:
                            byseq[x.num]["flags"] = {str(f) for f in (it.get("FLAGS") or [])}
                        else:
                            rec["seq_uid_mismatch"] = True
                ms = [byseq[k] for k in sorted(byseq)]
                rec["seqs"] = sorted(byseq)
            rec["msgs"] = ms
            out[name] = rec
        return out

    LIST_MENU = [("", "*"), ("", "%"), ("", "a/%"), ("a/", "%"), ("", "INBOX"), ("", "inbox"), ("", "a*"), ("", "%/%"),
                 ("", "a b"), ("", "x+y"), ("", "q[1]"), ("", "*b*"), ("a/", "*"), ("", "a"),
                 # INBOX is matched in any letter case, also under wild cards
                 ("", "IN*"), ("", "i%X"), ("", "In%")]

    def observe_namespace(self, sname="N"):
        """C17: LIST and LSUB for a menu of (reference, pattern) against the namespace model."""
        from .refmodel import namespace as NS

        o = self.sess(sname)
        o.on_resp = None
        for ref, pat in self.cfg.get("list_menu", self.LIST_MENU):
            for cmd in ("LIST", "LSUB"):
                r, resps = o.do(f"{cmd} {_q(ref)} {_q(pat)}")
                if r is None or r.typ != "OK":
                    self.fail("C17.list-failed", {"cmd": cmd, "ref": ref, "pat": pat}, "OK", str(r))
                    continue
                got = {}
                for x in resps:
                    if x.kind == "untagged" and x.typ == cmd and len(x.data) >= 3:
                        nm = x.data[2]
                        nm = bytes(nm).decode("latin-1") if isinstance(nm, bytes) else str(nm)
                        at = {str(a) for a in (x.data[0] or [])}
                        if nm in got:
                            self.fail("C17.listed-twice", {"cmd": cmd, "pat": pat}, None, nm)
                        got[nm] = at
                want = NS.list_expect(self.model, ref, pat, lsub=(cmd == "LSUB"))
                if set(got) != set(want):
                    self.fail("C17.list-names", {"cmd": cmd, "ref": ref, "pat": pat,
                                                 "missing": sorted(set(want) - set(got))[:3], "extra": sorted(set(got) - set(want))[:3]},
                              sorted(want), sorted(got))
                    continue
                for nm, w_ in want.items():
                    at = got[nm]
                    if cmd == "LIST" and ("\\Noselect" in at) != w_["noselect"]:
                        self.fail("C17.noselect-attr", {"pat": pat, "want": w_["noselect"]}, w_, sorted(at))
                    # "\HasChildren exactly when an existing mailbox lies below it": whatever filter the listing applies
                    if ("\\HasChildren" in at) != w_["haschildren"] or ("\\HasNoChildren" in at) == w_["haschildren"]:
                        self.fail("C17.haschildren-attr", {"cmd": cmd, "pat": pat, "want": w_["haschildren"]}, w_, sorted(at))
        # the advertised LIST extensions (RFC 5258 / 5819) are still LIST: selection option SUBSCRIBED lists what LSUB lists,
        # return option SUBSCRIBED marks exactly the subscribed names, CHILDREN reports the same \HasChildren, STATUS
        # reports the model's message count for every selectable name listed
        for ref, pat in (("", "*"), ("", "%"), ("a/", "*")):
            for form, base, lsub in ((f'LIST (SUBSCRIBED) {_q(ref)} {_q(pat)}', "LIST", True),
                                     (f'LIST {_q(ref)} {_q(pat)} RETURN (SUBSCRIBED CHILDREN)', "LIST", False),
                                     (f'LIST {_q(ref)} {_q(pat)} RETURN (STATUS (MESSAGES))', "LIST", False)):
                r, resps = o.do(form)
                if r is None or r.typ != "OK":
                    self.fail("C17.list-failed", {"cmd": form.split('"')[0].strip(), "ref": ref, "pat": pat}, "OK", str(r))
                    continue
                got, status = {}, {}
                for x in resps:
                    if x.kind == "untagged" and x.typ == "LIST" and len(x.data) >= 3:
                        nm = x.data[2]
                        nm = bytes(nm).decode("latin-1") if isinstance(nm, bytes) else str(nm)
                        got[nm] = {str(a) for a in (x.data[0] or [])}
                    if x.kind == "untagged" and x.typ == "STATUS" and len(x.data) >= 2:
                        nm = x.data[0]
                        nm = bytes(nm).decode("latin-1") if isinstance(nm, bytes) else str(nm)
                        items = [str(v) for v in (x.data[1] or [])]
                        if "MESSAGES" in [i.upper() for i in items]:
                            status[canon_name(nm)] = int(items[[i.upper() for i in items].index("MESSAGES") + 1])
                want = NS.list_expect(self.model, ref, pat, lsub=lsub)
                det = {"cmd": "LIST-EXTENDED", "form": form.split(" ")[1] if lsub else form.split("RETURN ")[1], "pat": pat}
                if set(got) != set(want):
                    self.fail("C17.list-names", dict(det, ref=ref, missing=sorted(set(want) - set(got))[:3], extra=sorted(set(got) - set(want))[:3]),
                              sorted(want), sorted(got))
                    continue
                for nm, w_ in want.items():
                    at = got[nm]
                    mbm = self.model.mboxes.get(nm)
                    if "CHILDREN" in form or lsub:
                        if ("\\HasChildren" in at) != w_["haschildren"] or ("\\HasNoChildren" in at) == w_["haschildren"]:
                            self.fail("C17.haschildren-attr", dict(det, want=w_["haschildren"]), w_, sorted(at))
                    if "RETURN (SUBSCRIBED" in form and mbm is not None and ("\\Subscribed" in at) != bool(mbm.subscribed):
                        self.fail("C17.subscribed-attr", dict(det, want=bool(mbm.subscribed)), bool(mbm.subscribed), sorted(at))
                    if "STATUS" in form and mbm is not None and not mbm.noselect:
                        if status.get(nm) != len(mbm.msgs):
                            self.fail("C17.list-status", dict(det), len(mbm.msgs), status.get(nm))
        # RFC 5258 RECURSIVEMATCH: besides the subscribed names that match, an existing name that matches the pattern and
        # has a subscribed descendant which the pattern does not match is listed too (with CHILDINFO)
        for ref, pat in (("", "%"), ("", "a"), ("", "*")):
            form = f'LIST (SUBSCRIBED RECURSIVEMATCH) {_q(ref)} {_q(pat)}'
            r, resps = o.do(form)
            if r is None or r.typ != "OK":
                self.fail("C17.list-failed", {"cmd": "LIST (SUBSCRIBED RECURSIVEMATCH)", "ref": ref, "pat": pat}, "OK", str(r))
                continue
            got = set()
            for x in resps:
                if x.kind == "untagged" and x.typ == "LIST" and len(x.data) >= 3:
                    nm = x.data[2]
                    got.add(bytes(nm).decode("latin-1") if isinstance(nm, bytes) else str(nm))
            direct = set(NS.list_expect(self.model, ref, pat, lsub=True))
            allmatch = set(NS.list_expect(self.model, ref, pat, lsub=False))
            sub_nomatch = [n for n, mb_ in self.model.mboxes.items() if mb_.subscribed and n not in direct]
            via_child = {a for a in allmatch if a not in direct and any(d.startswith(a + "/") or (a == "INBOX" and d.lower().startswith("inbox/")) for d in sub_nomatch)}
            want = direct | via_child
            if got != want:
                self.fail("C17.list-names", {"cmd": "LIST-EXTENDED", "form": "(SUBSCRIBED RECURSIVEMATCH)", "pat": pat, "ref": ref,
                                             "missing": sorted(want - got)[:3], "extra": sorted(got - want)[:3]}, sorted(want), sorted(got))
        # a deleted mailbox is not selectable; an existing one is
        for name in self.cfg.get("names", ()):
            mb = self.model.mb(name)
            r, _ = o.do(f"EXAMINE {_q(name)}")
            ok = r is not None and r.typ == "OK"
            want_ok = mb is not None and not mb.noselect
            if ok != want_ok:
                self.fail("C17.selectable", {"want": want_ok, "exists": mb is not None}, want_ok, str(r))

    def observe_restart_diff(self):
        """C12: observe, restart (orderly), observe again, compare -- no hand-written expectation."""
        def snap(tag):
            ls = self.observe_list(tag)
            names = sorted(n for n, at in ls["LIST"].items() if "\\Noselect" not in at)
            st = self.observe_store(tag, names)
            for rec in st.values():
                for m in rec.get("msgs", []):
                    if "flags" in m:
                        m["flags"] = sorted(norm_flags(m["flags"]))
                rec.pop("seqs", None)
            return {"list": ls, "store": st}

        before = snap("O1")
        how = self.cfg.get("restart_how", "shutdown")
        self.log(f"ENV: orderly restart ({how})")
        try:
            if how == "expire":
                self.w.expire_restart()
            else:
                self.w.restart()
        except Exception as e:
            self.fail("C12.restart-failed", {"exc": type(e).__name__, "how": how}, None, repr(e))
            return
        self.model.restart()
        after = snap("O2")
        from .seams import ctx as _ctx  # noqa
        special = {"Archive", "Deleted Messages", "Drafts", "Junk", "Sent Messages"}
        for kind in ("LIST", "LSUB"):
            b, a = before["list"][kind], after["list"][kind]
            for nm in sorted(set(b) | set(a)):
                if nm in special and nm not in b and kind == "LIST":
                    continue  # a missing SPECIAL-USE mailbox may be created again at start-up
                if b.get(nm) != a.get(nm):
                    self.fail("C12.list-differs", {"cmd": kind, "what": "attrs" if nm in a and nm in b else ("lost" if nm in b else "new")},
                              {nm: sorted(b[nm]) if nm in b else None}, {nm: sorted(a[nm]) if nm in a else None})
        for nm in sorted(set(before["store"]) | set(after["store"])):
            b, a = before["store"].get(nm), after["store"].get(nm)
            if b is None:
                if nm not in special:
                    self.fail("C12.mailbox-appeared", {}, None, nm)
                continue
            if a is None:
                self.fail("C12.mailbox-lost", {}, nm, None)
                continue
            for k in ("exists", "UIDVALIDITY", "UIDNEXT", "exists_n", "uid_search_all"):
                if b.get(k) != a.get(k):
                    self.fail("C12.mailbox-differs", {"field": k}, {nm: b.get(k)}, {nm: a.get(k)})
            sb = {k: v for k, v in (b.get("status") or {}).items()}
            sa = {k: v for k, v in (a.get("status") or {}).items()}
            if sb != sa:
                self.fail("C12.status-differs", {"fields": sorted(k for k in set(sb) | set(sa) if sb.get(k) != sa.get(k))}, {nm: sb}, {nm: sa})
            mb_, ma_ = b.get("msgs", []), a.get("msgs", [])
            if [(m["uid"], m["cid"]) for m in mb_] != [(m["uid"], m["cid"]) for m in ma_]:
                self.fail("C12.messages-differ", {}, [(m["uid"], m["cid"]) for m in mb_], [(m["uid"], m["cid"]) for m in ma_])
            elif [m.get("flags") for m in mb_] != [m.get("flags") for m in ma_]:
                self.fail("C12.flags-differ", {}, [m.get("flags") for m in mb_], [m.get("flags") for m in ma_])
            elif [m.get("idate") for m in mb_] != [m.get("idate") for m in ma_]:
                self.fail("C12.internaldate-differs", {}, None, None)

    def compare_store(self, obs: dict, checks):
        for name, mb in self.model.mboxes.items():
            if mb.noselect:
                continue
            rec = obs.get(name)
            if rec is None or not rec.get("exists"):
                self.fail("C05.mailbox-vanished", {}, name, None)
                continue
            vv = rec.get("UIDVALIDITY")
            if vv is not None:
                self.learn_vv(name, vv)
            if rec.get("UIDNEXT") is not None:
                self.learn_uidnext(name, mb.vv, rec["UIDNEXT"], "EXAMINE")
            st = rec.get("status") or {}
            if "UIDNEXT" in st:
                self.learn_uidnext(name, mb.vv, st["UIDNEXT"], "STATUS")
            if "UIDVALIDITY" in st and vv is not None and st["UIDVALIDITY"] != vv:
                self.fail("C02.uidvalidity-changed", {"where": "STATUS vs SELECT"}, vv, st["UIDVALIDITY"])
            got = rec.get("msgs", [])
            uids = [m["uid"] for m in got]
            if any(b <= a for a, b in zip(uids, uids[1:])):
                self.fail("C02.uids-not-ascending", {}, None, uids)
            if rec.get("seq_uid_mismatch") or rec.get("seqs", []) != list(range(1, len(got) + 1)):
                self.fail("C03.seq-uid-bijection", {}, None, rec.get("seqs"))
            want_cids = sorted(m.cid for m in mb.msgs)
            got_cids = sorted(str(m["cid"]) for m in got)
            if want_cids != got_cids:
                lost = [c for c in want_cids if c not in got_cids]
                extra = [c for c in got_cids if c not in want_cids]
                self.fail("C05.message-multiset", {"lost": bool(lost), "extra": bool(extra), "mbox": _mclass(name)},
                          want_cids, got_cids)
            for m in got:
                self.reveal(name, mb.vv, m["uid"], m["cid"], "observe")
            if [m.uid for m in mb.msgs] != uids:
                if want_cids == got_cids:
                    self.fail("C02.uid-assignment", {"mbox": _mclass(name)}, [(m.uid, m.cid) for m in mb.msgs],
                              [(m["uid"], m["cid"]) for m in got])
            else:
                for mm, g in zip(mb.msgs, got):
                    if mm.cid != g["cid"]:
                        self.fail("C03.uid-content", {"mbox": _mclass(name)}, (mm.uid, mm.cid), (g["uid"], g["cid"]))
                    if "flags" in g:
                        if norm_flags(g["flags"]) != frozenset(mm.flags):
                            self.fail("C04.final-flags", {"mbox": _mclass(name)}, sorted(mm.flags), sorted(g["flags"]))
                        if ("unseen" in g["flags"]) == ("\\Seen" in g["flags"]):
                            self.fail("C04.seen-unseen-complement", {"where": "final"}, None, sorted(g["flags"]))
                    if mm.idate is not None and g.get("idate"):
                        if _idate_epoch(g["idate"]) != mm.idate:
                            self.fail("C03.internaldate", {"mbox": _mclass(name)}, mm.idate, g["idate"])
            if rec.get("uid_search_all") is not None and rec["uid_search_all"] != uids:
                self.fail("C03.uid-search-vs-fetch", {}, uids, rec["uid_search_all"])
            if "MESSAGES" in st and st["MESSAGES"] != len(mb.msgs):
                self.fail("C05.status-messages", {"mbox": _mclass(name)}, len(mb.msgs), st["MESSAGES"])

    def _disk_recent(self, name):
        """{uid: in the folder's `Recent` sequence} read from .mh_sequences; keys are matched to the
        model's messages by position, so None unless folder and model hold the same message list."""
        mb = self.model.mboxes.get(name)
        if mb is None or mb.noselect:
            return None
        path = self.w.folder_path("inbox" if name == "INBOX" else name)
        try:
            mh = stdmailbox.MH(path, create=False)
            keys = sorted(mh.keys())
            rec = set(mh.get_sequences().get("Recent", []))
        except Exception:
            return None
        if len(keys) != len(mb.msgs):
            return None
        try:
            for k, m in zip(keys, mb.msgs):
                with open(os.path.join(path, str(k)), "rb") as f:
                    if msgs.cid_of(f.read()) != m.cid:
                        return None
        except OSError:
            return None
        return {m.uid: (k in rec) for k, m in zip(keys, mb.msgs)}

    def check_recent_disk(self, where: str):
        """\\Recent is given on arrival only: in .mh_sequences it never comes back for a message."""
        for name, mb in self.model.mboxes.items():
            dr = self._disk_recent(name)
            if dr is None:
                continue
            for u, rec in dr.items():
                k = (name, mb.vv, u)
                if u > self._known_uid(name):
                    continue  # not noticed by the server yet: it is given \\Recent when it is
                if rec and self.recent_disk.get(k) is False:
                    self.fail("C04.recent-set-again", {"on": "disk", "at": where}, "not in Recent", {"uid": u})
                self.recent_disk[k] = rec

    def compare_mh(self):
        """What an MH tool sees: stdlib mailbox.MH on the folder."""
        for name, mb in self.model.mboxes.items():
            folder = "inbox" if name == "INBOX" else name
            path = self.w.folder_path(folder)
            if not os.path.isdir(path):
                continue
            try:
                mh = stdmailbox.MH(path, create=False)
                keys = list(mh.keys())
                seqs = mh.get_sequences()
            except Exception as e:
                self.fail("C13.mh-sequences-unreadable", {"exc": type(e).__name__}, None, repr(e))
                continue
            # (a deleted mailbox kept as a \\Noselect placeholder is still a folder an MH agent can deliver into: the messages
            # DELETE removed must be gone from its .mh_sequences too)
            # (stdlib MH.get_sequences() silently drops the keys that have no file -- the very thing to be checked -- so the file is
            # read as an MH tool that trusts it would: `name: 1-3 7`)
            raw_seqs = {}
            try:
                with open(os.path.join(path, ".mh_sequences")) as fh:
                    for ln in fh:
                        if ":" not in ln:
                            continue
                        nm_, _, spec = ln.partition(":")
                        mem = set()
                        for part in spec.split():
                            a, _, b = part.partition("-")
                            if a.isdigit() and (not b or b.isdigit()):
                                mem.update(range(int(a), int(b or a) + 1))
                        raw_seqs[nm_.strip()] = mem
            except FileNotFoundError:
                pass
            stale = sorted({k for v in raw_seqs.values() for k in v} - set(keys))
            if stale:
                seqs = {k: sorted(v) for k, v in raw_seqs.items()}
                self.fail("C13.mh-sequences-mention-removed", {"seqs": sorted(s for s, v in seqs.items() if set(v) - set(keys)), "placeholder": bool(mb.noselect)},
                          [], stale)
            if mb.noselect:
                continue
            cids = {}
            for k in keys:
                with open(os.path.join(path, str(k)), "rb") as f:
                    cids[k] = msgs.cid_of(f.read())
            skeys = sorted(keys)
            if [cids[k] for k in skeys] != [m.cid for m in mb.msgs]:
                continue  # message list itself differs: reported by the multiset/uid rules
            for k, m in zip(skeys, mb.msgs):
                fl = set()
                for sname, members in seqs.items():
                    if k in members and sname not in ("unseen", "Recent"):
                        fl.add(MH_TO_IMAP.get(sname, sname))
                if k not in seqs.get("unseen", []):
                    fl.add("\\Seen")
                if ("Seen" in seqs and k in seqs["Seen"]) == (k in seqs.get("unseen", [])):
                    self.fail("C13.mh-seen-unseen", {}, None, {"key": k})
                if frozenset(fl) != frozenset(m.flags):
                    self.fail("C13.mh-flags-differ", {"mbox": _mclass(name)}, sorted(m.flags), sorted(fl))

    # -- canonical state (from implementation internals; used only for deduplication) -------------------------------------
    def canon(self) -> str:
        """Canonical form of the implementation state, used only to merge histories.  Merging is safe only
        if merged states have the same futures, so every plain-data attribute of the mailbox, server and
        session objects takes part *by default* (a cache or index nobody listed here still splits states);
        excluded are only attributes known not to influence behaviour (statistics, tags, absolute times)."""
        srv = self.w.srv
        parts = []
        for name in sorted(srv.active_mailboxes):
            mb = srv.active_mailboxes[name]
            fm = self.w.syn_mtime.get(self.w.folder_path(name).rstrip("/"), 0)
            parts.append((name, mb.uid_vv, mb.next_uid, tuple(mb.msg_keys), tuple(mb.uids),
                          tuple(sorted((k, tuple(sorted(v))) for k, v in mb.sequences.items() if v)),
                          tuple(sorted(mb.attributes)), mb.subscribed, mb.num_msgs, mb.num_recent, mb.optional_resync,
                          mb.deleted, hasattr(mb, "mgmt_task") and not mb.mgmt_task.done(), (fm > mb.mtime) - (fm < mb.mtime),
                          tuple(sorted(mb.clients)),
                          _plain_attrs(mb, ("mtime", "sequences", "msg_keys", "uids", "attributes", "clients", "executing_tasks"))))
        parts.append(("server", _plain_attrs(srv, ("num_rcvd_commands", "num_failed_commands", "command_durations", "folder_check_durations",
                                                   "next_client_num", "commands_in_progress", "active_mailboxes", "clients", "active_commands"))))
        disk = []
        root = str(self.w.maildir)
        for dp, dns, fns in os.walk(root):
            dns.sort()
            rel = os.path.relpath(dp, root)
            for fn in sorted(fns):
                if fn.startswith("asimap.db"):
                    continue
                with open(os.path.join(dp, fn), "rb") as f:
                    data = f.read()
                disk.append((rel, fn, msgs.cid_of(data) if fn.isdigit() else hashlib.sha256(data).hexdigest()[:12]))
        db = self.w.db_dump()
        for row in db.get("mailboxes", []):
            row.pop("mtime", None)
        sess = []
        for t, c in srv.clients.items():
            ch = getattr(c, "cmd_handler", None)
            if ch is not None:  # a POP3 session: its handler's marks, snapshot, caches
                sess.append((_sess_of(self.w, c), "pop3", _plain_attrs(ch, ("name",))))
            cp = getattr(c, "cmd_processor", None)
            if cp is None:
                continue
            ms = self.model.sess.get(_sess_of(self.w, c))
            sess.append((_sess_of(self.w, c), str(cp.state), cp.mbox.name if cp.mbox else None, cp.examine, cp.idling,
                         tuple(cp.pending_notifications), tuple(ms.view) if ms else (), cp.fetch_while_pending_count,
                         cp.select_while_selected_count, _plain_attrs(cp, ("tag", "name", "pending_notifications"))))
        led = tuple(sorted((k, max(v) if v else 0) for k, v in self.ledger.items()))
        blob = repr((parts, disk, sorted((k, repr(v)) for k, v in db.items()), sorted(sess), led,
                     sorted(self.vv_seen.items()), sorted((k, v.dead) for k, v in self.model.sess.items())))
        return hashlib.sha256(blob.encode()).hexdigest()

    def close(self):
        self.w.close()


# ------------------------------------------------------------------------------------------------
def _plain(v, depth=0):
    """Plain data -> hashable canonical value; anything else (objects, floats = timestamps) -> None."""
    if isinstance(v, bool) or v is None or isinstance(v, (int, str, bytes)):
        return ("v", v)
    if depth > 4:
        return None
    if isinstance(v, (list, tuple)):
        return ("l", tuple(_plain(x, depth + 1) for x in v))
    if isinstance(v, (set, frozenset)):
        return ("s", tuple(sorted((_plain(x, depth + 1) for x in v), key=repr)))
    if isinstance(v, dict):
        return ("d", tuple(sorted(((repr(k), _plain(x, depth + 1)) for k, x in v.items()), key=repr)))
    return None


def _plain_attrs(obj, exclude=()):
    out = []
    for k, v in sorted(vars(obj).items()):
        if k in exclude:
            continue
        p = _plain(v)
        if p is not None:
            out.append((k, p))
    return tuple(out)


def _q(name: str) -> str:
    return '"' + name.replace("\\", "\\\\").replace('"', '\\"') + '"'


def _emitter(sess) -> str:
    ch = sess.writer.chunks[-1][1] if sess.writer.chunks else ()
    return ">".join(reversed(ch[:4]))


def _sess_of(w, proxy) -> str:
    for n, s in w.sessions.items():
        if s.proxy is proxy:
            return n
    return "?"


def _parked(w) -> list:
    """Innermost asimap frame of every unfinished task (diagnostics for hangs)."""
    import asyncio

    out = []
    for t in asyncio.all_tasks(w.loop):
        if t.done():
            continue
        co = t.get_coro()
        site = None
        while co is not None:
            fr = getattr(co, "cr_frame", None) or getattr(co, "ag_frame", None)
            if fr is not None and "/asimap/" in fr.f_code.co_filename:
                site = f"{fr.f_code.co_filename.rsplit('/', 1)[1][:-3]}.{fr.f_code.co_name}"
            co = getattr(co, "cr_await", None) or getattr(co, "ag_await", None)
        if site:
            out.append(site)
    return sorted(set(out))


def _mclass(name: str) -> str:
    return "INBOX" if name == "INBOX" else "other"


_MON = {m: i + 1 for i, m in enumerate("Jan Feb Mar Apr May Jun Jul Aug Sep Oct Nov Dec".split())}


def _idate_epoch(s: str) -> int:
    import calendar

    m = re.match(r"\s*(\d+)-(\w+)-(\d+) (\d+):(\d+):(\d+) ([+-])(\d\d)(\d\d)", s)
    d, mon, y, hh, mm, ss, sg, oh, om = m.groups()
    t = calendar.timegm((int(y), _MON[mon], int(d), int(hh), int(mm), int(ss)))
    off = (int(oh) * 60 + int(om)) * 60
    return t - off if sg == "+" else t + off


def _search_match(key: str, m) -> bool:
    k = key.upper()
    if k == "ALL":
        return True
    table = {"DELETED": "\\Deleted", "SEEN": "\\Seen", "FLAGGED": "\\Flagged", "ANSWERED": "\\Answered", "DRAFT": "\\Draft"}
    if k in table:
        return table[k] in m.flags
    if k.startswith("UN") and k[2:] in table:
        return table[k[2:]] not in m.flags
    if k.startswith("KEYWORD "):
        return key.split()[1] in m.flags
    if k.startswith("UNKEYWORD "):
        return key.split()[1] not in m.flags
    raise ValueError(key)
