"""
Virtual asyncio event loop + scheduler with numbered choice points.

The real asimap coroutines run on `VLoop`.  Nothing in here knows about asimap.

Every source of scheduling nondeterminism is funnelled through
`Scheduler.choose(kind, n)`:  replay a recorded prefix first (a kind/arity mismatch
while replaying is a hard `Divergence` error), then answer 0 (= default schedule).
"""

from __future__ import annotations

import asyncio
import heapq
import threading
from asyncio import events
from dataclasses import dataclass, field
from typing import Any, Callable


class Divergence(RuntimeError):
    """Replaying a recorded choice prefix hit a different choice point."""


class StepCap(RuntimeError):
    pass


@dataclass
class Point:
    kind: str
    n: int
    chosen: int
    labels: tuple = ()


class Scheduler:
    """Records/replays choices.  `prefix` is a list of ints."""

    def __init__(self, prefix=None, kinds: list[str] | None = None):
        """prefix: list of ints, or a sparse dict {point index: choice} (all others 0)."""
        if isinstance(prefix, dict):
            mx = max([int(k) for k in prefix] + [-1])
            lst = [0] * (mx + 1)
            for k, v in prefix.items():
                lst[int(k)] = v
            prefix = lst
        self.prefix = list(prefix or [])
        self.prefix_kinds = kinds
        self.points: list[Point] = []
        self.recording = True

    def choose(self, kind: str, n: int, labels: tuple = ()) -> int:
        assert n >= 1
        if n == 1 or not self.recording:
            return 0
        i = len(self.points)
        if i < len(self.prefix):
            c = self.prefix[i]
            if c >= n or c < 0:
                raise Divergence(
                    f"choice {i}: replayed {c} but only {n} options ({kind} {labels})"
                )
            if self.prefix_kinds is not None and i < len(self.prefix_kinds):
                if self.prefix_kinds[i] != kind:
                    raise Divergence(
                        f"choice {i}: kind {kind} != recorded {self.prefix_kinds[i]}"
                    )
        else:
            c = 0
        self.points.append(Point(kind, n, c, labels))
        return c

    @property
    def choices(self) -> list[int]:
        return [p.chosen for p in self.points]

    @property
    def deviations(self) -> int:
        return sum(1 for p in self.points if p.chosen != 0)


@dataclass
class ExtOp:
    """An operation running 'outside' the loop: executor job or DB statement."""

    seq: int
    chan: str  # 'db' or 'exec'
    func: Callable[[], Any]
    fut: asyncio.Future | None
    label: str = ""
    executed: bool = False
    result: Any = None
    exc: BaseException | None = None


class VLoop(asyncio.BaseEventLoop):
    """
    Event loop without selector.  Time is virtual.  `run_in_executor` and the patched
    aiosqlite queue register ExtOps; the driver decides when each one runs.
    """

    def __init__(self, sched: Scheduler, *, preempt_timers: bool = False,
                 timer_dev_horizon: float = 10.0, split_exec: bool = False, sticky_ops: bool = False):
        super().__init__()
        self.sched = sched
        self._vtime = 0.0
        self.ext_ops: list[ExtOp] = []
        self._op_seq = 0
        self.steps = 0
        self.max_steps = 200_000
        self.preempt_timers = preempt_timers
        self.timer_dev_horizon = timer_dev_horizon
        self.split_exec = split_exec
        self.errors: list[dict] = []  # from the loop exception handler
        self.hooks_before_op: list[Callable[[ExtOp], None]] = []
        self.hooks_after_op: list[Callable[[ExtOp], None]] = []
        self.extra_events: Callable[[], list[tuple[str, Callable[[], None]]]] | None = None
        self.sticky_ops = sticky_ops  # scenario option: external operations passed over by a deviation stay postponed
        self.demoted_ops: set = set()
        self.after_step: Callable[[list[str], int], None] | None = None  # (labels of the enabled events, index taken)
        self.set_exception_handler(self._on_exc)
        self._thread_id = threading.get_ident()

    # -- BaseEventLoop plumbing ------------------------------------------------
    def time(self) -> float:
        return self._vtime

    def _process_events(self, event_list):  # pragma: no cover
        pass

    def _write_to_self(self):
        pass

    def add_signal_handler(self, sig, callback, *args):
        pass

    def remove_signal_handler(self, sig):
        return True

    def run_in_executor(self, executor, func, *args):
        fut = self.create_future()
        f = (lambda: func(*args)) if args else func
        self.add_ext_op("exec", f, fut, label=_label(func))
        return fut

    def add_ext_op(self, chan: str, func, fut, label: str = "") -> ExtOp:
        self._op_seq += 1
        op = ExtOp(self._op_seq, chan, func, fut, label)
        self.ext_ops.append(op)
        return op

    def _on_exc(self, loop, context):
        exc = context.get("exception")
        self.errors.append(
            {
                "message": context.get("message"),
                "exception": repr(exc),
                "type": type(exc).__name__ if exc else None,
            }
        )

    def install(self):
        self._thread_id = threading.get_ident()
        events._set_running_loop(self)

    def uninstall(self):
        if events._get_running_loop() is self:
            events._set_running_loop(None)
        self._thread_id = None

    # -- inspection --------------------------------------------------------------
    def live_timers(self):
        return [h for h in self._scheduled if not h._cancelled]

    def next_timer_when(self) -> float | None:
        while self._scheduled and self._scheduled[0]._cancelled:
            h = heapq.heappop(self._scheduled)
            h._scheduled = False
        if self._scheduled:
            return self._scheduled[0]._when
        return None

    def deliverable_ops(self) -> list[ExtOp]:
        out = []
        seen_db = False
        for op in self.ext_ops:
            if op.chan == "db":
                if seen_db:
                    continue
                seen_db = True
            out.append(op)
        return out

    # -- primitive transitions ---------------------------------------------------
    def run_ready_one(self):
        h = self._ready.popleft()
        if not h._cancelled:
            h._run()
        h = None

    def fire_timers(self):
        when = self.next_timer_when()
        if when is None:
            return
        if when > self._vtime:
            self._vtime = when
        while self._scheduled and (
            self._scheduled[0]._cancelled or self._scheduled[0]._when <= self._vtime
        ):
            h = heapq.heappop(self._scheduled)
            h._scheduled = False
            if not h._cancelled:
                self._ready.append(h)

    def advance(self, dt: float):
        """Advance the virtual clock by dt, firing due timers in order and running
        everything they cause (default schedule) -- used by 'idle' driver events."""
        target = self._vtime + dt
        while True:
            self.run_until(lambda: False, allow_timers=False)
            when = self.next_timer_when()
            if when is None or when > target:
                break
            self.fire_timers()
        self._vtime = target

    def execute_op(self, op: ExtOp, deliver: bool = True):
        if not op.executed:
            for hk in self.hooks_before_op:
                hk(op)
            try:
                op.result = op.func()
            except BaseException as e:  # noqa: B036
                if isinstance(e, (KeyboardInterrupt, SystemExit)) or type(e).__name__ == "CrashPoint":
                    raise
                op.exc = e
            op.executed = True
            for hk in self.hooks_after_op:
                hk(op)
        if deliver:
            self.ext_ops.remove(op)
            fut = op.fut
            if fut is not None and not fut.done():
                if op.exc is not None:
                    fut.set_exception(op.exc)
                else:
                    fut.set_result(op.result)

    # -- the scheduling step -------------------------------------------------------
    def enabled(self, allow_timers: bool = True):
        """Canonical ordered list of (label, thunk).  Index 0 is the default."""
        ev: list[tuple[str, Callable[[], None]]] = []
        extras = list(self.extra_events()) if self.extra_events is not None else []
        for lab, th, first in extras:
            if first is True:
                ev.append((lab, th))
        if self._ready:
            ev.append(("R", self.run_ready_one))
        demoted = []
        for op in self.deliverable_ops():
            if self.sticky_ops and id(op) in self.demoted_ops:
                demoted.append(op)  # passed over by an earlier deviation: stays postponed (see below)
                continue
            if self.split_exec and not op.executed:
                ev.append((f"X{op.chan}:{op.label}", (lambda o=op: self.execute_op(o))))
                ev.append((f"Xe{op.chan}:{op.label}", (lambda o=op: self.execute_op(o, deliver=False))))
            else:
                ev.append((f"X{op.chan}:{op.label}", (lambda o=op: self.execute_op(o))))
        # a peer that reads slowly: writer.drain() parked by the harness; the peer catching up is an event
        # of its own, by default taken only once nothing else can run (but before any timer)
        self.parked_drains = [(lab, f) for lab, f in getattr(self, "parked_drains", []) if not f.done()]
        for lab, f in self.parked_drains:
            ev.append((lab, (lambda f=f: f.done() or f.set_result(None))))
        # "late" events: by default taken only once nothing else can run, but before any timer
        for lab, th, first in extras:
            if first == "late":
                ev.append((lab, th))
        for op in demoted:
            ev.append((f"X{op.chan}:{op.label}", (lambda o=op: (self.demoted_ops.discard(id(o)), self.execute_op(o)))))
        if allow_timers:
            when = self.next_timer_when()
            if when is not None:
                if not ev:
                    ev.append(("T", self.fire_timers))
                elif (self.preempt_timers or not self._ready) and when - self._vtime <= self.timer_dev_horizon:
                    ev.append(("T", self.fire_timers))
        for lab, th, first in extras:
            if first is False:
                ev.append((lab, th))
        return ev

    def step(self, allow_timers: bool = True) -> bool:
        ev = self.enabled(allow_timers)
        if not ev:
            return False
        self.steps += 1
        if self.steps > self.max_steps:
            raise StepCap(f"step cap {self.max_steps} hit at vtime {self._vtime}")
        c = self.sched.choose("step", len(ev), tuple(e[0] for e in ev)) if len(ev) > 1 else 0
        if self.sticky_ops and c > 0:
            # a deviation passes over the external operations listed before the chosen event: they stay
            # postponed until chosen or until nothing else can run (one deviation, not one per step)
            live = {id(op): op for op in self.ext_ops}
            labs = [e[0] for e in ev[:c]]
            for op in self.deliverable_ops():
                if f"X{op.chan}:{op.label}" in labs and id(op) not in self.demoted_ops:
                    self.demoted_ops.add(id(op))
        ev[c][1]()
        if self.after_step is not None:
            self.after_step([e[0] for e in ev], c)
        return True

    def run_until(self, pred: Callable[[], bool], *, allow_timers: bool = True,
                  horizon: float | None = None) -> bool:
        """Step until pred() or nothing enabled (or virtual horizon passed).
        Returns pred()."""
        while not pred():
            if horizon is not None and self._vtime > horizon:
                return False
            if not self.step(allow_timers):
                return pred()
        return True

    def settle(self):
        """Run ready callbacks and external ops to exhaustion, no timers."""
        self.run_until(lambda: False, allow_timers=False)


def _label(func) -> str:
    f = func
    while hasattr(f, "func"):
        a = getattr(f, "args", ())
        f = f.func
        n = getattr(f, "__name__", type(f).__name__)
        if a and isinstance(a[0], (str, bytes)) :
            return f"{n}"
    return getattr(f, "__name__", type(f).__name__)
