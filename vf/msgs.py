"""Content-tagged messages: every message carries a unique id (cid) in Subject, Message-ID and body."""

from __future__ import annotations

import re

CID_RE = re.compile(rb"cid=([A-Za-z0-9_]+);")

BASE_DATE = 1704067200  # 2024-01-01 00:00:00 UTC
MONTHS = "Jan Feb Mar Apr May Jun Jul Aug Sep Oct Nov Dec".split()


def make(cid: str, extra_headers: str = "", body: str | None = None, crlf: bool = True) -> bytes:
    nl = "\r\n" if crlf else "\n"
    # (the default body's length depends on the content id, so that two generated messages rarely have the
    # same size: a size served from a stale cache must show)
    b = body if body is not None else f"body of cid={cid}; line two{nl}" + "p" * (sum(map(ord, cid)) * 7 % 61) + nl
    txt = (
        f"From: sender-{cid}@example.com{nl}"
        f"To: rcpt@example.com{nl}"
        f"Subject: subject cid={cid};{nl}"
        f"Message-ID: <{cid}@verif.example>{nl}"
        f"Date: Mon, 01 Jan 2024 10:00:00 +0000{nl}"
        f"{extra_headers}"
        f"{nl}{b}"
    )
    return txt.encode("latin-1")


def cid_of(data: bytes | None) -> str | None:
    if not data:
        return None
    m = CID_RE.search(data)
    return m.group(1).decode() if m else None


def idate(n: int) -> str:
    """An IMAP date-time string, whole seconds, distinct per n (n < 86400)."""
    h, r = divmod(n % 86400, 3600)
    m, s = divmod(r, 60)
    day = 1 + (n // 86400) % 28
    return f'"{day:02d}-Jan-2024 {h:02d}:{m:02d}:{s:02d} +0000"'


def idate_epoch(n: int) -> int:
    return BASE_DATE + n
