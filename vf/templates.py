"""Template jails built once per run by the real code, then copytree'd per execution."""

from __future__ import annotations

import os
import shutil

from . import msgs
from .sessions import imap_literal
from .world import World, scratch_root

_cache: dict[str, str] = {}


def build(name: str, setup, mode: str = "new") -> str:
    """setup(world, session) runs against a fresh real server; the resulting jail is kept."""
    if name in _cache and os.path.isdir(_cache[name]):
        return _cache[name]
    w = World(None, mode=mode, keep=True)
    try:
        w.start()
        s = w.connect("T")
        setup(w, s)
        w.shutdown()
    finally:
        w.close()
    dst = os.path.join(scratch_root(), "tmpl-" + name)
    if os.path.isdir(dst):
        shutil.rmtree(dst)
    shutil.move(w.jail, dst)
    shutil.rmtree(w.root, ignore_errors=True)
    _cache[name] = dst
    return dst


def must_ok(sess, cmd):
    r, _ = sess.do(cmd)
    if r is None or r.typ != "OK":
        raise RuntimeError(f"template setup command failed: {cmd!r} -> {r}")
    return r


def append(sess, mbox: str, cid: str, flags: str = "", n: int = 0, **kw):
    m = msgs.make(cid, **kw)
    fl = f"({flags}) " if flags is not None else ""
    return must_ok(sess, f"APPEND {mbox} {fl}{msgs.idate(n)} ".encode() + imap_literal(m))


def simple_inbox(name: str, n_append: int, expunge_uids=(), others=("other",), flags=None, mode="new") -> str:
    """INBOX with cids m1..m<n_append> (UID i), minus expunge_uids; extra empty mailboxes."""

    def setup(w, s):
        for mb in others:
            must_ok(s, f"CREATE {mb}")
        for i in range(1, n_append + 1):
            fl = (flags or {}).get(i, "")
            append(s, "INBOX", f"m{i}", fl, n=i)
        if expunge_uids:
            must_ok(s, "SELECT INBOX")
            must_ok(s, "UID STORE %s +FLAGS.SILENT (\\Deleted)" % ",".join(map(str, expunge_uids)))
            must_ok(s, "EXPUNGE")
            must_ok(s, "CLOSE")

    return build(name, setup, mode=mode)
