"""
S -- stateless, deviation-bounded exploration of I/O-completion schedules of the real code.

A scenario = a world configuration + a set-up prelude (default schedule) + one short command
list per session issued concurrently.  Every execution runs to completion; executions are
enumerated by the number of deviations from the default schedule (0, then 1, then 2 ...):
a deviation is any scheduler answer other than 0 at a choice point (a completion delivered
while callbacks are ready, a younger executor job overtaking, a timer firing while I/O is
outstanding, a command arriving later, ...).
"""

from __future__ import annotations

import importlib
import json
import time as _time

from .. import msgs
from ..hdriver import SUBJ_KEY, HState, _emitter, _parked
from ..refmodel import linear
from ..refmodel import sets as S_
from ..refmodel.linear import _parse_set as _pset
from ..refmodel.store import norm_flags
from ..respparse import fetch_items
from ..runner import Failure, pmap, seeded_order

HORIZON = 130.0


def _cfg(cfg_ref):
    mod, fn, args = cfg_ref
    return getattr(importlib.import_module(mod), fn)(*args)


def render(h: HState, sn: str, ev: dict) -> str | bytes:
    op = ev["op"]
    uid = ev.get("uid", False)
    u = "UID " if uid else ""
    if op in ("fetch", "store", "copy", "move"):
        st = h._which(sn, ev["set"], uid)
    if op == "fetch":
        return f"{u}FETCH {st} {ev.get('items', '(UID)')}"
    if op == "store":
        item = {"+": "+FLAGS", "-": "-FLAGS", "=": "FLAGS"}[ev.get("mode", "+")] + (".SILENT" if ev.get("silent") else "")
        return f"{u}STORE {st} {item} ({ev['flags']})"
    if op == "copy":
        return f"{u}COPY {st} \"{ev['dst']}\""
    if op == "move":
        return f"{u}MOVE {st} \"{ev['dst']}\""
    if op == "search":
        return f"{u}SEARCH {ev.get('key', 'ALL')}"
    if op == "expunge":
        return "EXPUNGE" if not ev.get("uidset") else f"UID EXPUNGE {h._which(sn, ev['uidset'], True)}"
    if op in ("noop", "check", "close", "capability", "namespace", "idle"):
        return op.upper()
    if op == "lsub":
        return 'LSUB "" "*"'
    if op in ("select", "examine"):
        return f"{op.upper()} \"{ev['m']}\""
    if op == "append":
        from ..sessions import imap_literal

        return f"APPEND \"{ev['m']}\" ({ev.get('flags', '')}) ".encode() + imap_literal(msgs.make(ev["cid"]))
    if op in ("delete", "create"):
        return f"{op.upper()} \"{ev['m']}\""
    if op == "rename":
        return f"RENAME \"{ev['m']}\" \"{ev['to']}\""
    if op in ("subscribe", "unsubscribe"):
        return f"{op.upper()} \"{ev['m']}\""
    if op == "status":
        return f"STATUS \"{ev['m']}\" (MESSAGES UIDNEXT)"
    raise ValueError(op)


class SRun:
    def __init__(self, scn: dict, prefix):
        cfg = dict(_cfg(tuple(scn["cfg_ref"])))
        cfg["defer_recording"] = True
        cfg["prelude"] = list(cfg.get("prelude", [])) + list(scn.get("prelude", []))
        lo = dict(cfg.get("loopopts") or {})
        lo.update(scn.get("loopopts") or {})
        cfg["loopopts"] = lo
        self.scn = scn
        sc = cfg.get("state_class")
        if sc:
            mod, name = sc.split(":")
            self.h = getattr(importlib.import_module(mod), name)(cfg, prefix=prefix)
        else:
            self.h = HState(cfg, prefix=prefix)
        self.fails: list[Failure] = []
        self.views: dict = {}
        self.dates: dict = {}  # session -> {uid: every INTERNALDATE string it was shown for that UID}
        self.fcache: dict = {}  # session -> per position: the last FLAGS value the session was sent (None: never told)
        self.inflight: dict = {}
        self.kinds: dict = {}

    def fail(self, rule, details, expected=None, observed=None):
        self.fails.append(Failure("C10", rule, details,
                                  {"driver": "s", "scenario": self.scn, "choices": {str(i): p.chosen for i, p in enumerate(self.h.w.sched.points) if p.chosen}},
                                  expected, observed, list(self.h.transcript[-80:])))

    # pure stream monitor (no model needed while commands overlap)
    def on_resp(self, sess, r):
        self.h.log(f"S[{sess.name}]: " + r.raw[:150].decode("latin-1").rstrip())
        if r.errors:
            self.fail("C07.syntax", {"typ": r.typ}, None, r.raw[:200].decode("latin-1"))
        if r.kind == "tagged":
            self.done_tags[sess.name].add(r.tag)
            return
        if r.kind != "untagged" or sess.name not in self.views:
            return
        v = self.views[sess.name]
        cur = self.kinds.get(sess.name)
        if r.typ == "EXISTS":
            if cur and cur[0] in ("select", "examine"):
                self.views[sess.name] = [None] * r.num
                self.fcache[sess.name] = [None] * r.num
                return
            if r.num < len(v):
                self.fail("C01.exists-shrinks", {"emitter": _emitter(sess)}, f">= {len(v)}", r.num)
            else:
                self.fcache.setdefault(sess.name, [None] * len(v)).extend([None] * (r.num - len(v)))
                v.extend([None] * (r.num - len(v)))
        elif r.typ == "EXPUNGE":
            if cur and cur[0] in ("fetch", "store", "search") and not cur[1]:
                self.fail("C01.expunge-during-fetch-store-search", {"cmd": cur[0], "emitter": _emitter(sess)}, None,
                          r.raw.decode("latin-1").strip())
            if not (1 <= r.num <= len(v)):
                self.fail("C01.expunge-out-of-view", {"emitter": _emitter(sess)}, f"1..{len(v)}", r.num)
            else:
                v.pop(r.num - 1)
                fc = self.fcache.setdefault(sess.name, [None] * (len(v) + 1))
                if r.num - 1 < len(fc):
                    fc.pop(r.num - 1)
        elif r.typ == "FETCH":
            if not (1 <= r.num <= len(v)):
                self.fail("C01.fetch-out-of-view", {"emitter": _emitter(sess), "cmd": cur[0] if cur else None}, f"1..{len(v)}", r.num)
                return
            try:
                it = fetch_items(r)
            except Exception:
                return
            if "FLAGS" in it:
                fc = self.fcache.setdefault(sess.name, [None] * len(v))
                while len(fc) < len(v):
                    fc.append(None)
                fc[r.num - 1] = norm_flags([str(x) for x in (it["FLAGS"] or [])])
            if "UID" in it and it.get("INTERNALDATE") is not None:
                d_ = it["INTERNALDATE"]
                d_ = bytes(d_).decode("latin-1") if isinstance(d_, (bytes, bytearray)) else str(d_)
                self.dates.setdefault(sess.name, {}).setdefault(int(it["UID"]), set()).add(d_)
            if "UID" in it:
                u = int(it["UID"])
                if v[r.num - 1] is None:
                    v[r.num - 1] = u
                elif v[r.num - 1] != u:
                    self.fail("C01.fetch-binding", {"emitter": _emitter(sess), "cmd": cur[0] if cur else None},
                              {"seq": r.num, "uid": v[r.num - 1]}, {"seq": r.num, "uid": u})
                cid = None
                for k, val in it.items():
                    if k.startswith("BODY[") or k.startswith("RFC822"):
                        cid = cid or msgs.cid_of(val)
                if cur and cur[0] == "fetch":
                    self.fetched.setdefault((sess.name, self.cur_idx.get(sess.name)), []).append((r.num, u, cid))

    def run(self):
        h = self.h
        w = h.w
        cmds = {sn: list(evs) for sn, evs in self.scn["concurrent"].items()}
        for sn in cmds:
            if sn not in w.sessions:
                h.sess(sn)
        model0 = h.model.clone()
        for sn, ms in model0.sess.items():
            # sessions enter the concurrent phase synchronised (the prelude ends with quiescence)
            pass
        self.done_tags = {sn: set() for sn in w.sessions}
        self.fetched = {}
        self.cur_idx = {}
        for sn, s in w.sessions.items():
            if getattr(s, "pop3", False):
                continue
            ms = h.model.session(sn)
            self.views[sn] = list(ms.view) if ms.selected else []
            if not ms.selected:
                self.views.pop(sn)
            s.on_resp = self.on_resp
            self.done_tags.setdefault(sn, set())
        nxt = {sn: 0 for sn in cmds}
        tags: dict = {}
        t_sent: dict = {}
        t_done: dict = {}

        pop_mark: dict = {}

        def answered(sn, i):
            if (sn, i) in pop_mark:  # POP3: one reply per command line (or the session ends)
                s_ = w.sessions.get(sn)
                return s_ is None or s_.task.done() or (len(s_.out) > pop_mark[(sn, i)] and s_.out.endswith(b"\r\n"))
            if cmds[sn][i]["op"] == "idle":
                # an IDLE is "answered" for the purpose of sending what follows (DONE) once its continuation has arrived
                s_ = w.sessions[sn]
                return tags[(sn, i)] in self.done_tags[sn] or any(x.kind == "cont" for x in s_.responses[idle_mark.get((sn, i), 0):])
            return tags[(sn, i)] in self.done_tags[sn]

        idle_mark: dict = {}
        idle_tag: dict = {}

        def can_feed(sn):
            i = nxt[sn]
            if i >= len(cmds[sn]) or w.sessions[sn].task.done():
                return False
            return i == 0 or answered(sn, i - 1)

        def feed(sn):
            i = nxt[sn]
            ev = cmds[sn][i]
            if ev["op"] == "pop":
                h.log(f"C[{sn}]: {ev['line']}")
                pop_mark[(sn, i)] = len(w.sessions[sn].out)
                tags[(sn, i)] = f"pop{i}"
                w.sessions[sn].feed_frame(ev["line"].encode("latin-1"))
                t_sent[(sn, i)] = w.loop.time()
                nxt[sn] += 1
                return
            if ev["op"] == "done":
                h.log(f"C[{sn}]: DONE")
                self.kinds[sn] = ("done", False)
                self.cur_idx[sn] = i
                tags[(sn, i)] = idle_tag.get(sn, "?")
                w.sessions[sn].send_raw(b"DONE")
                t_sent[(sn, i)] = w.loop.time()
                nxt[sn] += 1
                return
            text = render(h, sn, ev)
            if ev["op"] == "idle":
                idle_mark[(sn, i)] = len(w.sessions[sn].responses)
            h.log(f"C[{sn}]: {text if isinstance(text, str) else text[:60]}")
            self.kinds[sn] = (ev["op"], ev.get("uid", False))
            self.cur_idx[sn] = i
            if ev["op"] in ("select", "examine"):
                self.views[sn] = []
            tags[(sn, i)] = w.sessions[sn].send(text)
            if ev["op"] == "idle":
                idle_tag[sn] = tags[(sn, i)]
            t_sent[(sn, i)] = w.loop.time()
            nxt[sn] += 1

        env_events = list(self.scn.get("env", []))
        env_fired = [False] * len(env_events)

        def fire_env(k):
            env_fired[k] = True
            h.apply(dict(env_events[k]))  # the delivery agent acts now (on disk, and in the reference model)

        offered: set = set()

        def feed_now(sn):
            offered.discard(sn)
            feed(sn)

        def extra():
            # a client's next command is sent at once by default; once a schedule has chosen to let
            # something else happen first, the command stays postponed (one deviation, not one per step)
            # until it is chosen or nothing else can run
            ev = []
            for sn in sorted(cmds):
                if can_feed(sn):
                    late = sn in offered and self.scn.get("sticky_inputs", True)
                    ev.append((f"In{sn}", (lambda sn=sn: feed_now(sn)), "late" if late else True))
            # environment events are never the default: firing one is a deviation
            ev += [(f"Env{k}", (lambda k=k: fire_env(k)), False) for k in range(len(env_events)) if not env_fired[k]]
            return ev

        def all_done():
            for sn in cmds:
                if w.sessions[sn].task.done():
                    continue
                if nxt[sn] < len(cmds[sn]):
                    return False
                if not answered(sn, nxt[sn] - 1):
                    return False
            return True

        def after_step(labels, c):
            for i, lab in enumerate(labels):
                if lab.startswith("In") and i != c:
                    offered.add(lab[2:])

        w.loop.extra_events = extra
        w.loop.after_step = after_step
        # set-up of a non-initial state: these sessions' first command is sent now and its writer parks at
        # the first drain (the peer reads slowly); the command is "in progress" when the others start
        for sn in self.scn.get("parked", ()):
            w.sessions[sn].writer.drain_mode = 9
            w.sessions[sn].writer.park_skip = int((self.scn.get("parked_at") or {}).get(sn, 1)) - 1  # park at the n-th drain
            feed(sn)
            w.loop.run_until(lambda: any(lab == f"Dr{sn}" for lab, f in getattr(w.loop, "parked_drains", []) if not f.done()),
                             allow_timers=False)
            w.sessions[sn].writer.drain_mode = 0
        w.sched.recording = True
        for sn in self.scn.get("slow", ()):  # peers that may read slowly: each writer.drain() is a choice point
            if sn in w.sessions:
                w.sessions[sn].writer.drain_mode = 2
        t0 = w.loop.time()
        try:
            w.loop.run_until(all_done, horizon=t0 + HORIZON)
        finally:
            w.sched.recording = False
            w.loop.extra_events = None
            w.loop.after_step = None
            for sn in self.scn.get("slow", ()):
                if sn in w.sessions:
                    w.sessions[sn].writer.drain_mode = 0
        npoints = [p.n for p in w.sched.points]
        w.loop.settle()
        # (a) completion
        results = {}
        for sn in cmds:
            s = w.sessions[sn]
            for i, ev in enumerate(cmds[sn]):
                tg = tags.get((sn, i))
                key = f"{sn}{i}"
                if ev["op"] == "pop":
                    out_ = s.out[pop_mark.get((sn, i), 0):]
                    results[key] = ("OK",) if out_.startswith(b"+OK") else (("REFUSED",) if out_.startswith(b"-ERR") else ("NONE",))
                    if results[key] == ("NONE",) and not s.task.done():
                        self.fail("C10.command-never-answered", {"op": "pop:" + ev["line"].split()[0], "parked": _parked(w)}, "a reply", None)
                    if ev.get("expect_cid") and results[key] == ("OK",):
                        # RETR/TOP n: the snapshot's n-th message or -ERR, never another message
                        from .. import msgs as _msgs

                        end = out_.find(b"\r\n.\r\n")
                        got_cid = _msgs.cid_of(out_[: end if end >= 0 else len(out_)])
                        if got_cid != ev["expect_cid"]:
                            self.fail("C20.retr-other-message", {"cmd": ev["line"].split()[0]}, ev["expect_cid"], got_cid)
                    continue
                r = s.tagged(tg) if tg else None
                if r is None:
                    if not s.task.done():
                        self.fail("C10.command-never-answered", {"op": ev["op"], "uid": ev.get("uid", False), "parked": _parked(w)},
                                  "tagged reply", None)
                    results[key] = ("NONE",)
                    if s.task.done() and sn in (list(self.scn.get("slow", ())) + list(self.scn.get("parked", ()))) and ev["op"] in ("fetch", "search", "noop", "idle", "done", "capability", "lsub"):
                        # a peer that did not read for 2 s is disconnected (push()'s write timeout): its
                        # read-only command has no outcome to judge
                        results[key] = ("DROPPED",)
                    continue
                took = None
                for x in s.responses:
                    pass
                results[key] = ("OK",) if r.typ == "OK" else ("REFUSED",)
                if ev["op"] in ("fetch", "search") and r.typ == "OK":
                    if ev["op"] == "fetch":
                        results[key] = ("FETCHED", sorted(self.fetched.get((sn, i), [])))
                    else:
                        res = []
                        for x in s.responses:
                            if x.kind == "untagged" and x.typ == "SEARCH":
                                res = [int(v) for v in x.data]
                        results[key] = ("OK", tuple(res))
        # timer deviations advance the virtual clock by up to timer_dev_horizon each; anything
        # answered only after ~the command watchdog (120 s) was starved
        if w.loop.time() - t0 > 60.0:
            self.fail("C10.answered-by-watchdog", {"parked": _parked(w)}, "< 60 s virtual", w.loop.time() - t0)
        if any(s.pending_garbage() for s in w.sessions.values() if not getattr(s, "pop3", False)):
            self.fail("C07.incomplete-response", {}, None, None)
        # observation (sequential, unrecorded)
        final_lists = {}
        alive = [sn for sn in cmds if not w.sessions[sn].task.done() and not getattr(w.sessions[sn], "pop3", False)]
        # every session synchronises first (NOOP): what it has been told about flags by then is kept aside, because the observer's
        # own look at the mailbox (it clears \\Recent) makes the server send fresh FLAGS to everybody
        fc_saved = {}
        for sn in alive:
            if sn in self.views:
                self.kinds[sn] = ("noop", False)
                r0, _ = w.sessions[sn].do("NOOP")
                if r0 is not None and r0.typ == "OK" and sn in self.fcache:
                    fc_saved[sn] = list(self.fcache[sn])
        # a phase that creates, deletes or renames mailboxes is judged on the mailbox list the server shows afterwards (LIST), not on
        # the names the reference knew before it: a name that should be gone but is still listed, or the other way round, shows
        ns_ops = any(e["op"] in ("create", "delete", "rename") for evs_ in cmds.values() for e in evs_)
        self.ns_judged = ns_ops
        if ns_ops:
            o_ = h.sess("O")
            o_.on_resp = None
            r_, resps_ = o_.do('LIST "" "*"')
            listed_ = []
            for x in resps_:
                if x.kind == "untagged" and x.typ == "LIST" and len(x.data) >= 3 and "\\Noselect" not in [str(a_) for a_ in (x.data[0] or [])]:
                    nm_ = x.data[2]
                    listed_.append(bytes(nm_).decode("latin-1") if isinstance(nm_, (bytes, bytearray)) else str(nm_))
            obs = h.observe_store("O", names=sorted(set(listed_)))
        else:
            obs = h.observe_store("O")
        for name, rec in obs.items():
            if rec.get("exists"):
                final_lists[name] = tuple((str(m["cid"]), tuple(sorted(norm_flags(m.get("flags", ()))))) for m in rec.get("msgs", []))
        uid_lists = {name: [m["uid"] for m in rec.get("msgs", [])] for name, rec in obs.items() if rec.get("exists")}
        for sn in alive:
            if sn not in self.views:
                continue
            s = w.sessions[sn]
            self.kinds[sn] = ("noop", False)
            r, _ = s.do("NOOP")
            sel = h.model.session(sn).selected
            for (k_sn, k_i), _v in list(tags.items()):
                pass
            # which mailbox the session has selected now (selection may have changed in the phase)
            for ev in cmds[sn]:
                if ev["op"] in ("select", "examine"):
                    sel = "INBOX" if ev["m"].upper() == "INBOX" else ev["m"]
                if ev["op"] == "close":
                    sel = None
            if sel is None or r is None or r.typ != "OK":
                continue
            want = uid_lists.get(sel)
            if want is None:
                continue
            v = self.views[sn]
            if len(v) != len(want):
                self.fail("C01.flush-mismatch", {"after": "final-NOOP"}, want, v)
                continue
            if want:
                self.kinds[sn] = ("fetch", True)
                r, resps = s.do("UID FETCH 1:* (UID)")
                self.kinds[sn] = None
            got = self.views[sn]
            if [g for g in got] != want and any(g is not None and g != w_ for g, w_ in zip(got, want)):
                self.fail("C01.final-view", {}, want, got)
            # a UID's internal date never changes: whatever date a session was shown for a message during the phase is the one
            # the message has in the end (sessions that stayed in one mailbox)
            if not any(e["op"] in ("select", "examine", "close") for e in cmds[sn]):
                fin_dates = {m_["uid"]: m_.get("idate") for m_ in (obs.get(sel) or {}).get("msgs", [])}
                for u_, seen_ in sorted(self.dates.get(sn, {}).items()):
                    if fin_dates.get(u_) is not None and any(x != fin_dates[u_] for x in seen_):
                        self.fail("C03.internaldate-changed", {"mbox": "selected"}, fin_dates[u_], sorted(seen_))
                        break
            # what the session was last told about each message's flags is what the flags are (after its NOOP)
            fc = fc_saved.get(sn)
            fin = final_lists.get(sel)
            if fc is not None and fin is not None and len(fc) == len(fin):
                for pos, (told, (cid_, fl_)) in enumerate(zip(fc, fin)):
                    if told is not None and set(told) != set(fl_):
                        self.fail("C04.stale-flags-after-sync", {"pos": pos + 1}, sorted(fl_), sorted(told))
                        break
        # map fetched UIDs to content ids (literal if present, else via the uid tables)
        uid2cid = {}
        for name, mb in model0.mboxes.items():
            for m in mb.msgs:
                uid2cid[(name, m.uid)] = m.cid
        uid2cid_final = {}
        for name, rec in obs.items():
            for m in rec.get("msgs", []) if rec.get("exists") else []:
                uid2cid.setdefault((name, m["uid"]), str(m["cid"]))
                uid2cid_final[(name, m["uid"])] = str(m["cid"])
        # COPYUID / APPENDUID name the messages actually created: the destination UID must hold the source's content
        for sn in cmds:
            s = w.sessions[sn]
            for i, ev in enumerate(cmds[sn]):
                if ev["op"] not in ("copy", "move"):
                    continue
                tg = tags.get((sn, i))
                codes = []
                r = s.tagged(tg) if tg else None
                if r is not None and r.code:
                    codes.append([str(c) for c in r.code])
                for x in s.responses:
                    if x.kind == "untagged" and x.typ == "OK" and x.code and str(x.code[0]).upper() == "COPYUID":
                        codes.append([str(c) for c in x.code])
                sel0 = model0.session(sn).selected
                dst = "INBOX" if ev["dst"].upper() == "INBOX" else ev["dst"]
                for code in codes:
                    if len(code) != 4 or code[0].upper() != "COPYUID":
                        continue
                    try:
                        src = sorted(S_.denote_uid(_pset(code[2]), list(range(1, 10000))))
                        dsts = sorted(S_.denote_uid(_pset(code[3]), list(range(1, 10000))))
                    except Exception:
                        continue
                    if len(src) != len(dsts):
                        self.fail("C02.copyuid-shape", {"op": ev["op"]}, None, code)
                        continue
                    for su, du in zip(src, dsts):
                        want = uid2cid.get((sel0, su))
                        got = uid2cid_final.get((dst, du))
                        if want is not None and got is not None and want != got:
                            self.fail("C02.copyuid-names-other-message", {"op": ev["op"]}, {"src_uid": su, "cid": want}, {"dst_uid": du, "cid": got})
        for key, val in list(results.items()):
            if val[0] == "FETCHED":
                sn = key[0]
                sel0 = model0.session(sn).selected
                results[key] = ("OK", tuple(c or uid2cid.get((sel0, u), f"uid{u}") for _, u, c in val[1]))
        # epilogue: a (name, UIDVALIDITY) pair never identifies two incarnations.  Two mailboxes created by the concurrent
        # commands: SELECT a (its UIDVALIDITY is revealed), DELETE a, RENAME b a, SELECT a again -- the second incarnation of
        # the name must not carry the first one's UIDVALIDITY.
        ep = self.scn.get("epilogue_vv")
        if ep:
            o = h.sess("O")
            o.on_resp = None

            def vv_of(name):
                r, resps = o.do(f'EXAMINE "{name}"')
                if r is None or r.typ != "OK":
                    return None
                for x in resps:
                    if x.kind == "untagged" and x.typ == "OK" and x.code and str(x.code[0]).upper() == "UIDVALIDITY":
                        return int(x.code[1])
                return None

            v1 = vv_of(ep["a"])
            o.do("UNSELECT")
            r1, _ = o.do(f'DELETE "{ep["a"]}"')
            r2, _ = o.do(f'RENAME "{ep["b"]}" "{ep["a"]}"')
            v2 = vv_of(ep["a"]) if r1 is not None and r1.typ == "OK" and r2 is not None and r2.typ == "OK" else None
            if v1 is not None and v2 is not None and v1 == v2:
                self.fail("C02.uidvalidity-names-two-incarnations", {"how": "concurrent-create;delete;rename"}, f"a UIDVALIDITY other than {v1}", v2)
        # epilogue: mailboxes created by the concurrent commands; the process dies (kill) or is shut down in an orderly way and is
        # started again on the same directory; each name is deleted and created again: its new UIDVALIDITY must be larger than
        # the one it had (which a client has seen: EXAMINE before the restart)
        ep = self.scn.get("epilogue_recreate")
        if ep:
            def vv_of2(o, name):
                r, resps = o.do(f'EXAMINE "{name}"')
                if r is None or r.typ != "OK":
                    return None
                for x in resps:
                    if x.kind == "untagged" and x.typ == "OK" and x.code and str(x.code[0]).upper() == "UIDVALIDITY":
                        return int(x.code[1])
                return None

            o = h.sess("O")
            o.on_resp = None
            before = {n: vv_of2(o, n) for n in ep["names"]}
            if ep.get("how") == "kill":
                w.kill()
                w.start()
            else:
                w.restart()
            o = w.connect("O2")
            for n in ep["names"]:
                if before[n] is None:
                    continue
                r1, _ = o.do(f'DELETE "{n}"')
                r2, _ = o.do(f'CREATE "{n}"')
                after = vv_of2(o, n) if r1 is not None and r1.typ == "OK" and r2 is not None and r2.typ == "OK" else None
                if after is not None and after <= before[n]:
                    self.fail("C02.uidvalidity-not-larger-after-recreate", {"how": ep.get("how", "restart")}, f"> {before[n]}", after)
        # epilogue: nothing may be left lying in a mailbox that was deleted to a placeholder during the phase: created again, it is empty
        for nm_ in self.scn.get("epilogue_create", ()):
            o = h.sess("O")
            o.on_resp = None
            r_, _ = o.do(f'CREATE "{nm_}"')
            if r_ is not None and r_.typ == "OK":
                r_, resps_ = o.do(f'STATUS "{nm_}" (MESSAGES)')
                for x in resps_:
                    if x.kind == "untagged" and x.typ == "STATUS" and len(x.data) == 2 and [str(v_) for v_ in x.data[1]][1:2] != ["0"]:
                        self.fail("C05.message-in-deleted-mailbox", {"mbox": "placeholder"}, "MESSAGES 0 after CREATE", [str(v_) for v_ in x.data[1]])
        # epilogue: an orderly restart changes nothing a client can see -- the subscriptions (LSUB) and the mailbox list with their
        # UIDVALIDITY / UIDNEXT are read, the server is shut down in an orderly way and started again, and they are read again
        if self.scn.get("epilogue_restart_same"):
            def snapshot(o):
                snap = {}
                for c_ in ("LSUB", "LIST"):
                    r_, resps_ = o.do(f'{c_} "" "*"')
                    names_ = []
                    for x in resps_:
                        if x.kind == "untagged" and x.typ == c_ and len(x.data) >= 3:
                            nm_ = x.data[2]
                            names_.append(bytes(nm_).decode("latin-1") if isinstance(nm_, (bytes, bytearray)) else str(nm_))
                    snap[c_] = sorted(names_)
                for nm_ in snap["LIST"]:
                    r_, resps_ = o.do(f'STATUS "{nm_}" (MESSAGES UIDNEXT UIDVALIDITY)')
                    for x in resps_:
                        if x.kind == "untagged" and x.typ == "STATUS" and len(x.data) == 2:
                            snap["STATUS " + nm_] = [str(v_) for v_ in x.data[1]]
                return snap

            o = h.sess("O")
            o.on_resp = None
            before = snapshot(o)
            w.restart()
            after = snapshot(w.connect("O2"))
            for k_ in sorted(set(before) | set(after)):
                if before.get(k_) != after.get(k_):
                    self.fail("C12.restart-differs", {"what": k_.split(" ")[0]}, before.get(k_), after.get(k_))
                    break
        sig_obs = (results, final_lists)
        self.env_fired = [e for e, f in zip(env_events, env_fired) if f]
        return npoints, sig_obs, model0

    def close(self):
        self.h.close()


def normalise_model_sig(res_items, cmds):
    out = {}
    for key, val in res_items:
        sn, i = key[0], int(key[1:])
        op = cmds[sn][i]["op"]
        if val[0] == "EMPTY":
            out[key] = ("EMPTY",)
        elif val[0] == "OK" and op in ("fetch", "search"):
            out[key] = ("OK", tuple(val[1]))
        else:
            out[key] = (val[0],)
    return out


def judge(scn, sig_obs, model0, env_fired=(), namespace=False):
    """Is the observed outcome one of the sequential outcomes?  Returns (ok, n_model_outcomes)."""
    cmds = dict(scn["concurrent"])
    if env_fired:
        cmds["~"] = [dict(e, op="env_" + e["op"]) for e in env_fired]
    results, final_lists = sig_obs
    allowed = linear.outcomes(model0, cmds)
    # a delivery agent is not synchronised with the server: a message it drops into the *destination* of a
    # COPY / MOVE / APPEND that is writing there may land between two of the messages being added
    loose = set()
    for e in env_fired:
        tgt = "INBOX" if e.get("m", "").upper() == "INBOX" else e.get("m")
        for evs in scn["concurrent"].values():
            for ev in evs:
                d = ev.get("dst") if ev["op"] in ("copy", "move") else (ev.get("m") if ev["op"] == "append" else None)
                if d is not None and ("INBOX" if d.upper() == "INBOX" else d) == tgt:
                    loose.add(tgt)

    def _norm(items):
        return tuple(sorted((n, tuple(sorted(lst)) if n in loose else tuple(lst)) for n, lst in items))

    fin_obs = _norm(final_lists.items())
    # search results are positions/uids: compare as counts of hits mapped by the model -> use cids when uid
    for res_items, fin in allowed:
        m = normalise_model_sig(res_items, cmds)
        ok = True
        for key, val in results.items():
            if key.startswith("~") or val[0] == "DROPPED":
                continue
            mv = m.get(key)
            if mv is None:
                ok = False
                break
            if mv[0] == "EMPTY":
                if val[0] not in ("OK", "REFUSED"):
                    ok = False
                    break
                continue
            if val[0] != mv[0]:
                ok = False
                break
            sn, i = key[0], int(key[1:])
            if val[0] == "OK" and cmds[sn][i]["op"] == "fetch" and tuple(val[1]) != tuple(mv[1]):
                ok = False
                break
            if val[0] == "OK" and cmds[sn][i]["op"] == "search" and len(val[1]) != len(mv[1]):
                ok = False
                break
        if not ok:
            continue
        fin_m = _norm((n, lst) for n, lst in fin if (namespace or n in final_lists))
        if fin_m == fin_obs:
            return True, len(allowed)
    return False, len(allowed)


def run_one(unit):
    scn, prefix = unit
    sr = SRun(scn, prefix)
    try:
        npoints, sig, model0 = sr.run()
        ok, nmodel = judge(scn, sig, model0, getattr(sr, "env_fired", ()), namespace=getattr(sr, "ns_judged", False))
        if not ok:
            sr.fail("C10.not-linearizable", {"cmds": [f"{sn}:{ev['op']}" for sn, evs in sorted(scn["concurrent"].items()) for ev in evs]},
                    f"one of {nmodel} sequential outcomes", {"results": sig[0], "final": {k: list(v) for k, v in sig[1].items()}})
        return prefix, npoints, json.dumps([sorted(sig[0].items()), sorted(sig[1].items())], default=str), sr.fails, sr.h.w.loop.steps
    finally:
        sr.close()


def explore(scn: dict, bound: int, jobs: int, seed: int = 0, max_exec: int | None = None, deadline: float | None = None):
    """Iterative deviation bounding.  Returns dict(executions, choice_points, outcomes, failures, ...).
    deadline (time.time() value): a wave with two or more deviations is not started after it (reported as a cap)."""
    _cfg(tuple(scn["cfg_ref"]))  # templates in the parent
    wave = [{}]
    executions = 0
    outcomes = {}
    failures = []
    maxpoints = 0
    steps = 0
    completed = -1
    capped = None
    for d in range(bound + 1):
        units = seeded_order([(scn, p) for p in wave], seed)
        if max_exec is not None and executions + len(units) > max_exec:
            capped = f"bound {d}: {len(units)} executions would exceed cap {max_exec}"
            break
        if deadline is not None and d >= 2 and _time.time() > deadline:
            capped = f"bound {d}: not started, the check's wall-clock budget was used up"
            break
        nxt = []
        for prefix, npoints, sig, fails, st in pmap(run_one, units, jobs, chunksize=4):
            executions += 1
            steps += st
            outcomes[sig] = outcomes.get(sig, 0) + 1
            failures.extend(fails)
            maxpoints = max(maxpoints, len(npoints))
            if d < bound:
                last = max([int(k) for k in prefix] + [-1])
                for i in range(last + 1, len(npoints)):
                    for alt in range(1, npoints[i]):
                        q = dict(prefix)
                        q[str(i)] = alt
                        nxt.append(q)
        completed = d
        wave = nxt
    return {"executions": executions, "max_choice_points": maxpoints, "distinct_outcomes": len(outcomes),
            "failures": failures, "bound_completed": completed, "cap": capped, "steps": steps}
