"""
K -- crash-point enumeration over one history.

The history runs once, under the default schedule, on the real server with two instruments:
  * the DB seam: a point before and after every database operation (statement, commit,
    VACUUM, DDL) -- hooks on VLoop.execute_op for channel 'db';
  * sys.addaudithook: a point *before* every mutating file-system call under the jail
    (open for writing incl. O_TRUNC, remove, rename, utime, symlink, mkdir, rmdir, rmtree,
    chmod) and, through sys.setprofile's c_return event, a point immediately *after* that
    call returns (this is how ".mh_sequences truncated, new content still in Python's
    buffer" is reached).
At every point the maildir tree (message files, .mh_sequences, asimap.db and any journal) is
copied: byte for byte what `kill -9` at that instant leaves behind.  No asimap clean-up code
runs because nothing is interrupted.  Every distinct snapshot is then booted with the real
start-up path on a fresh loop and interrogated through the protocol.
"""

from __future__ import annotations

import hashlib
import os
import shutil
import sys
import tempfile

from .. import msgs
from ..hdriver import SUBJ, SUBJ_KEY, HState, _q
from ..refmodel.store import norm_flags
from ..respparse import fetch_items
from ..runner import Failure
from ..world import World, scratch_root

_ACTIVE = None  # the CrashRun currently instrumented in this process
_HOOKED = False

MUTATING = {"os.remove", "os.rename", "os.utime", "os.symlink", "os.mkdir", "os.rmdir", "shutil.rmtree", "os.chmod",
            "os.truncate", "os.link", "shutil.move", "os.unlink", "os.replace"}


def _audit(event, args):
    run = _ACTIVE
    if run is None or run.in_snapshot or not run.maildir:
        return
    if event == "open":
        path, mode, flags = args
        if not isinstance(path, (str, bytes)) or not isinstance(flags, int):
            return
        if not (flags & (os.O_WRONLY | os.O_RDWR | os.O_CREAT | os.O_TRUNC | os.O_APPEND)):
            return
        p = os.fsdecode(path)
    elif event in MUTATING:
        p = args[0]
        try:
            p = os.fsdecode(p)
        except TypeError:
            return
    else:
        return
    if not p.startswith(run.maildir):
        return
    if "asimap.db" in p:
        return  # sqlite's own files are covered by the DB seam
    run.point(f"fs-before:{event}:{os.path.basename(p)}")
    run.armed = f"fs-after:{event}:{os.path.basename(p)}"


def _profile(frame, event, arg):
    run = _ACTIVE
    if run is not None and run.armed and event == "c_return" and not run.in_snapshot:
        label = run.armed
        run.armed = None
        run.point(label)


class CrashRun:
    def __init__(self, cfg: dict, history: list[dict], snap_root: str, boot: bool = False):
        self.cfg = cfg
        self.history = history
        self.snap_root = snap_root
        self.points: list[dict] = []
        self.in_snapshot = False
        self.armed = None
        self.h: HState | None = None
        self.maildir = ""
        self.cur_event = None
        self.model_A = None
        self.mids = []
        self.enabled = False
        self.seen_hashes: dict = {}
        self.ever: dict = {}
        self.phase = ""

    # -- instruments ---------------------------------------------------------------------
    def install(self):
        global _ACTIVE, _HOOKED
        if not _HOOKED:
            sys.addaudithook(_audit)
            _HOOKED = True
        _ACTIVE = self
        sys.setprofile(_profile)

    def uninstall(self):
        global _ACTIVE
        sys.setprofile(None)
        _ACTIVE = None

    def db_before(self, op):
        if op.chan == "db":
            self.point(f"db-before:{op.label}")

    def db_after(self, op):
        if op.chan == "db":
            self.point(f"db-after:{op.label}")

    def point(self, label: str):
        if not self.enabled or not self.maildir:
            return
        self.in_snapshot = True
        try:
            h = self.h
            idx = len(self.points)
            th = _tree_hash(self.maildir)
            acked = True
            inflight = None
            if self.cur_event is not None and getattr(h, "w", None) is not None:
                inflight = self.cur_event
                sn = self.cur_event.get("s")
                s = h.w.sessions.get(sn) if sn and sn != "env" else None
                if s is not None and s.sent:
                    tag = s.sent[-1][0]
                    acked = s.tagged(tag) is not None
                elif sn == "env":
                    acked = False
            if label.startswith("fs-") and ":os.link:" in label:
                self.phase = "pack"
            if getattr(h, "model", None) is not None and self.cur_event is not None:
                sig = _model_sig(h.model)
                if sig not in self.mids:
                    self.mids.append(sig)
            meta = {
                "idx": idx, "label": label, "tree": th, "acked": acked, "event": inflight, "phase": self.phase,
                "step": getattr(h, "step", 0),
            }
            key = (th, acked, getattr(h, "step", 0))
            if key in self.seen_hashes:
                meta["same_as"] = self.seen_hashes[key]
            else:
                self.seen_hashes[key] = idx
                dst = os.path.join(self.snap_root, f"p{idx}")
                shutil.copytree(self.maildir, os.path.join(dst, "mail"), symlinks=True)
                meta["dir"] = dst
                meta["syn_mtime"] = {os.path.relpath(k, self.maildir): v for k, v in h.w.syn_mtime.items()} if getattr(h, "w", None) is not None else {}
                mdl = h.model
                meta["A"] = _model_sig(self.model_A if self.model_A is not None else mdl) if mdl is not None else {}
                meta["B"] = _model_sig(mdl) if mdl is not None else {}
                # a composite event (STORE +\\Deleted then EXPUNGE) passes through acknowledged states in between
                meta["mids"] = list(self.mids)
                meta["revealed_live"] = _revealed(h) if mdl is not None else {}
                meta["ever"] = {k: sorted(v) for k, v in self.ever.items()}
            self.points.append(meta)
        finally:
            self.in_snapshot = False

    # -- run -------------------------------------------------------------------------------
    def run(self):
        cfg = dict(self.cfg)
        self.install()
        try:
            if cfg.get("crash_from_boot"):
                # first start-up on the template directory is part of the instrumented history
                self.enabled = True
                self._early = True
            h = HState.__new__(HState)
            self.h = h
            # HState.__init__ creates the world and starts the server: instrument from the start
            orig_start = World.start

            def start(w):
                self.maildir = str(w.maildir)
                w.loop.hooks_before_op.append(self.db_before)
                w.loop.hooks_after_op.append(self.db_after)
                return orig_start(w)

            World.start = start
            try:
                h.step = 0
                h.model = None
                h.ledger = {}
                HState.__init__(h, cfg)
            finally:
                World.start = orig_start
            self.enabled = True
            self.point("after-start-up")
            for ev in self.history:
                for nm, mb in h.model.mboxes.items():
                    self.ever.setdefault(nm, set()).update(m.cid for m in mb.msgs)
                self.cur_event = ev
                self.phase = ""
                self.model_A = h.model.clone()
                self.mids = []
                # the delivery agent is another process: its own writes are not crash points of the server
                self.enabled = not (ev.get("s") == "env" and ev["op"] in ("deliver", "tick"))
                h.apply(ev)
                self.enabled = True
                self.cur_event = None
                self.model_A = None
                self.point("between-commands")
            self.enabled = False
            return self.points, list(h.failures)
        finally:
            self.enabled = False
            self.uninstall()
            if self.h is not None and getattr(self.h, "w", None) is not None:
                self.h.close()


def _tree_hash(root: str) -> str:
    hsh = hashlib.sha256()
    for dp, dns, fns in os.walk(root):
        dns.sort()
        for fn in sorted(fns):
            p = os.path.join(dp, fn)
            hsh.update(os.path.relpath(p, root).encode())
            try:
                if os.path.islink(p):
                    hsh.update(b"L" + os.readlink(p).encode())
                else:
                    with open(p, "rb") as f:
                        hsh.update(f.read())
            except OSError:
                hsh.update(b"?")
        for dn in dns:
            p = os.path.join(dp, dn)
            hsh.update(b"D" + os.path.relpath(p, root).encode())
            if os.path.islink(p):
                hsh.update(b"L" + os.readlink(p).encode())
    return hsh.hexdigest()[:20]


def _model_sig(model):
    return {name: {"noselect": mb.noselect, "msgs": [(m.uid, m.cid, sorted(m.flags)) for m in mb.msgs], "vv": mb.vv,
                   "subscribed": mb.subscribed}
            for name, mb in model.mboxes.items()}


def _revealed(h: HState):
    """(name, vv) -> max revealed uid, for the current incarnations only."""
    out = {}
    for (name, vv), d in h.ledger.items():
        mb = h.model.mboxes.get(name)
        if mb is not None and mb.vv == vv and d:
            out[name] = {"vv": vv, "max": max(d), "map": dict(d)}
    return out


# -----------------------------------------------------------------------------------------------
def boot_and_check(meta: dict, cfg: dict, history: list, prop="C11", drop: bool = False) -> list[Failure]:
    """Start the real server on a copy of the crash snapshot and interrogate it.
    drop: the MH delivery agent does not know the server died: it drops one message into every mailbox whose UIDs a
    client has seen *before* the server is started again (that message must not inherit a revealed UID)."""
    fails: list[Failure] = []
    DROPPED = "dzdown"

    def fail(rule, details, expected=None, observed=None):
        if meta.get("phase"):
            details = dict(details, phase=meta["phase"])
        if drop:
            details = dict(details, delivered_while_down=True)
        fails.append(Failure(prop, rule, dict(details, point=meta["label"].split(":")[0] + ":" + meta["label"].split(":")[1] if ":" in meta["label"] else meta["label"],
                                             op=(meta["event"] or {}).get("op"), acked=meta["acked"]),
                             {"driver": "k", "cfg": cfg.get("name"), "history": history, "point": meta["idx"], "label": meta["label"]},
                             expected, observed, []))

    jail = tempfile.mkdtemp(prefix="boot-", dir=scratch_root())
    try:
        shutil.copytree(os.path.join(meta["dir"], "mail"), os.path.join(jail, "jail", "mail"), symlinks=True)
        w = World(os.path.join(jail, "jail"), mode=cfg.get("boot_mode", "run"))
        for rel, v in meta["syn_mtime"].items():
            w.syn_mtime[os.path.normpath(os.path.join(str(w.maildir), rel))] = v
        w.tick = max([w.tick] + list(meta["syn_mtime"].values()))
        try:
            if drop:
                for nm_ in sorted(meta["revealed_live"]):
                    folder_ = "inbox" if nm_ == "INBOX" else nm_
                    if os.path.isdir(w.folder_path(folder_)):
                        w.deliver(folder_, msgs.make(DROPPED, crlf=False), unseen=True, mtime=msgs.idate_epoch(9000))
            try:
                w.start()
            except BaseException as e:  # noqa: B036
                fail("C11.startup-failed", {"exc": type(e).__name__}, "start-up succeeds", repr(e)[:300])
                return fails
            errs = [r for r in w.log_records if r[0] in ("ERROR", "CRITICAL")]
            o = w.connect("O")
            r, resps = o.do('LIST "" "*"')
            if r is None or r.typ != "OK":
                fail("C11.list-failed", {}, "OK", str(r))
                return fails
            listed = {}
            for x in resps:
                if x.kind == "untagged" and x.typ == "LIST" and len(x.data) >= 3:
                    nm = x.data[2]
                    nm = bytes(nm).decode("latin-1") if isinstance(nm, bytes) else str(nm)
                    listed[nm] = {str(a) for a in (x.data[0] or [])}
            A, B = meta["A"], meta["B"]
            state = {}
            for nm, attrs in sorted(listed.items()):
                if "\\Noselect" in attrs:
                    continue
                t0 = w.loop.time()
                r, resps = o.do(f"SELECT {_q(nm)}")
                if r is None or r.typ != "OK" or w.loop.time() - t0 > 5:
                    fail("C11.select-failed", {"mbox": "INBOX" if nm == "INBOX" else "other", "slow": w.loop.time() - t0 > 5}, "tagged OK", str(r))
                    if r is None:
                        return fails
                    continue
                rec = {"msgs": []}
                n = 0
                for x in resps:
                    if x.kind == "untagged" and x.typ == "EXISTS":
                        n = x.num
                    if x.kind == "untagged" and x.typ == "OK" and x.code and str(x.code[0]).upper() in ("UIDVALIDITY", "UIDNEXT"):
                        rec[str(x.code[0]).upper()] = int(x.code[1])
                if n:
                    r2, resps2 = o.do(f"UID FETCH 1:* (UID FLAGS {SUBJ})")
                    if r2 is None or r2.typ != "OK":
                        fail("C11.fetch-failed", {}, "OK", str(r2))
                    for x in resps2:
                        if x.kind == "untagged" and x.typ == "FETCH":
                            try:
                                it = fetch_items(x)
                            except Exception:
                                continue
                            if "UID" in it and SUBJ_KEY in it:
                                rec["msgs"].append((int(it["UID"]), msgs.cid_of(it[SUBJ_KEY]), sorted(norm_flags(it.get("FLAGS") or []))))
                state[nm] = rec
            # -- messages that an in-flight command takes from one mailbox to another (MOVE, RENAME, RENAME INBOX): whichever
            #    side of the crash, the message exists in the old or the new place, with the flags it had or gets
            def _all(sig):
                out = {}
                for nm_, rec_ in sig.items():
                    for _u, c_, f_ in rec_.get("msgs", ()):
                        if c_:
                            out.setdefault(c_, []).append((nm_, sorted(f_)))
                return out

            if not meta["acked"]:
                a_all, b_all = _all(A), _all(B)
                got_all = {}
                for nm_, rec_ in state.items():
                    for _u, c_, f_ in rec_["msgs"]:
                        if c_:
                            got_all.setdefault(c_, []).append((nm_, f_))
                mids_all = [_all(m_) for m_ in meta.get("mids", ())]
                for c_, places_a in a_all.items():
                    if c_ not in b_all or c_.startswith("d"):
                        continue  # removed by the in-flight command, or dropped by the external agent
                    homes_a = {n_ for n_, _ in places_a}
                    homes_b = {n_ for n_, _ in b_all[c_]}
                    if homes_a & homes_b:
                        continue  # not moved by this command (or copied: the original stays): judged per mailbox below
                    found = got_all.get(c_, [])
                    if not found:
                        fail("C11.acknowledged-message-lost", {"mbox": "moved", "moving": True}, sorted(homes_a | homes_b), None)
                        continue
                    okf = [f_ for _n, f_ in places_a] + [f_ for _n, f_ in b_all[c_]]
                    for m_ in mids_all:
                        okf += [f_ for _n, f_ in m_.get(c_, ())]
                    # while the original is still in its old place the copy being made is debris of the unfinished
                    # command (judged per mailbox below); once the original is gone the new one *is* the message
                    in_old = [(n_, f_) for n_, f_ in found if n_ in homes_a]
                    if in_old:
                        continue
                    for n_, f_ in found:
                        if f_ not in okf:
                            fail("C11.flags-lost", {"mbox": "moved", "moving": True}, okf[:3], f_)
            # -- compare with what was acknowledged ---------------------------------------------------
            lo = B if meta["acked"] else A
            for nm in sorted(set(A) & set(B)):
                a, b = A[nm], B[nm]
                if a["noselect"] or b["noselect"]:
                    continue
                if nm not in state:
                    if nm in listed:
                        continue  # select failure already reported
                    fail("C11.mailbox-lost", {"mbox": "INBOX" if nm == "INBOX" else "other"}, nm, sorted(listed))
                    continue
                got = state[nm]["msgs"]
                got_cids = [c for _, c, _ in got]
                ca = [c for _, c, _ in a["msgs"]]
                cb = [c for _, c, _ in b["msgs"]]
                must = [c for c in (cb if meta["acked"] else ca) if (c in ca and c in cb) or meta["acked"]]
                may = set(ca) | set(cb)
                missing = [c for c in must if c not in got_cids]
                # only messages whose removal was acknowledged may not come back; debris of an
                # unacknowledged in-flight command (e.g. a half-written APPEND) is not covered
                gone = set(meta.get("ever", {}).get(nm, [])) - may
                extra = [c for c in got_cids if c in gone]
                if missing:
                    fail("C11.acknowledged-message-lost", {"mbox": "INBOX" if nm == "INBOX" else "other"}, must, got_cids)
                if extra:
                    fail("C11.expunged-message-back", {"mbox": "INBOX" if nm == "INBOX" else "other"}, sorted(may), got_cids)
                dup = [c for c in set(got_cids) if c is not None and c != DROPPED and got_cids.count(c) > max(ca.count(c), cb.count(c))]
                if dup:
                    fail("C11.message-duplicated", {"mbox": "INBOX" if nm == "INBOX" else "other"}, None, got_cids)
                uids = [u for u, _, _ in got]
                if any(y <= x for x, y in zip(uids, uids[1:])):
                    fail("C11.uids-not-ascending", {}, None, uids)
                # flags of messages the in-flight command does not touch
                fa = {(u, c): f for u, c, f in a["msgs"]}
                fb = {(u, c): f for u, c, f in b["msgs"]}
                for u, c, f in got:
                    wa, wb = fa.get((u, c)), fb.get((u, c))
                    if wa is None and not meta["acked"]:
                        continue  # being added by the in-flight command: may be partial
                    if c and c.startswith("d"):
                        continue  # dropped by the external agent: its `unseen` mark was never acknowledged through IMAP
                    ok = [x for x in ([wb] if meta["acked"] else [wa, wb]) if x is not None]
                    if not meta["acked"]:
                        for mid in meta.get("mids", ()):
                            for u2, c2, f2 in mid.get(nm, {}).get("msgs", ()):
                                if (u2, c2) == (u, c) and f2 not in ok:
                                    ok.append(f2)
                    if ok and f not in ok:
                        fail("C11.flags-lost", {"mbox": "INBOX" if nm == "INBOX" else "other"}, ok, f)
                # revealed (vv, uid) -> cid and UIDNEXT
                rv = meta["revealed_live"].get(nm)
                if rv and state[nm].get("UIDVALIDITY") == rv["vv"]:
                    for u, c, _ in got:
                        if str(u) in {str(k) for k in rv["map"]}:
                            want = rv["map"].get(u, rv["map"].get(str(u)))
                            if want != c:
                                fail("C11.uid-rebound", {}, {"uid": u, "cid": want}, {"uid": u, "cid": c})
                    if state[nm].get("UIDNEXT") is not None and state[nm]["UIDNEXT"] <= rv["max"]:
                        fail("C11.uidnext-not-above-revealed", {}, f"> {rv['max']}", state[nm]["UIDNEXT"])
                    un = state[nm].get("UIDNEXT")
                    if un is not None and got and un <= max(uids):
                        fail("C11.uidnext-not-above-assigned", {}, f"> {max(uids)}", un)
            # life goes on after the recovery: the next message stored in each mailbox gets a UID no client has seen
            # (a recovery that looks right may still hand the number -- and the UID -- of a vanished message to the next arrival)
            if not fails:
                from ..sessions import imap_literal

                for nm in sorted(state):
                    rv = meta["revealed_live"].get(nm)
                    if not rv or state[nm].get("UIDVALIDITY") != rv["vv"]:
                        continue
                    r3, _ = o.do(f"APPEND {_q(nm)} () ".encode() + imap_literal(msgs.make("after" + str(len(nm)))))
                    code = [str(c_) for c_ in (r3.code or [])] if r3 is not None else []
                    if r3 is None or r3.typ != "OK" or len(code) != 3 or code[0].upper() != "APPENDUID":
                        fail("C11.append-after-recovery-failed", {"mbox": "INBOX" if nm == "INBOX" else "other"}, "OK [APPENDUID ..]", str(r3.raw[:120] if r3 else None))
                        continue
                    if int(code[1]) == rv["vv"] and int(code[2]) <= rv["max"]:
                        fail("C11.uid-reused-after-recovery", {"mbox": "INBOX" if nm == "INBOX" else "other"}, f"> {rv['max']}", int(code[2]))
            return fails
        finally:
            try:
                w.close()
            except Exception:
                pass
    finally:
        shutil.rmtree(jail, ignore_errors=True)


def crash_history(unit):
    """Worker: run one history with instruments, boot every distinct snapshot."""
    cfg_ref, history = unit
    from .hist import _cfg

    cfg = _cfg(tuple(cfg_ref))
    snap_root = tempfile.mkdtemp(prefix="snaps-", dir=scratch_root())
    try:
        cr = CrashRun(cfg, history, snap_root)
        points, hfails = cr.run()
        fails = []
        booted = 0
        labels = {}
        for meta in points:
            kind = ":".join(meta["label"].split(":")[:2])
            labels[kind] = labels.get(kind, 0) + 1
            if "dir" not in meta:
                continue
            booted += 1
            fs = boot_and_check(meta, cfg, history)
            if not fs and meta.get("revealed_live"):
                booted += 1
                fs = boot_and_check(meta, cfg, history, drop=True)
                for f in fs:
                    f.replay["drop"] = True
            for f in fs:
                f.replay["cfg_ref"] = list(cfg_ref)
            fails.extend(fs)
            shutil.rmtree(meta["dir"], ignore_errors=True)
        return {"history": history, "points": len(points), "booted": booted, "fails": fails, "labels": labels,
                "driver_fails": len(hfails)}
    finally:
        shutil.rmtree(snap_root, ignore_errors=True)
