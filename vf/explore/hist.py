"""
H -- explicit-state breadth-first search over operation histories of the real code.

A state is the history that reaches it (live asyncio objects do not copy): every expansion
re-executes history+event on a fresh world.  Histories whose last step raised an oracle
failure are reported and not extended; canonical states already seen are not extended.
"""

from __future__ import annotations

import importlib
import json
import time

from ..hdriver import HState
from ..runner import pmap, seeded_order


def _mk(cfg):
    sc = cfg.get("state_class")
    if sc:
        mod, name = sc.split(":")
        return getattr(importlib.import_module(mod), name)(cfg)
    return HState(cfg)


def expand(unit):
    cfg_ref, hist, events, checks = unit
    cfg = _cfg(cfg_ref)
    out = []
    for ev in events:
        st = _mk(cfg)
        try:
            for e in hist:
                st.apply(e)
            n0 = len(st.failures)
            st.apply(ev)
            canon = st.canon()
            if len(st.failures) == n0:
                st.observe(checks)
            fails = [f for f in st.failures[n0:]]
            out.append((ev, canon, fails, st.w.loop.steps))
        finally:
            st.close()
    return hist, out


_cfg_cache: dict = {}


def _cfg(cfg_ref):
    """cfg_ref = (module, function, args): built lazily in the worker (templates are inherited
    through fork because they were built in the parent before the pool started)."""
    key = json.dumps(cfg_ref, sort_keys=True, default=str)
    if key not in _cfg_cache:
        mod, fn, args = cfg_ref
        _cfg_cache[key] = getattr(importlib.import_module(mod), fn)(*args)
    return _cfg_cache[key]


def bfs(cfg_ref, alphabet: list[dict], depth: int, jobs: int, seed: int = 0, checks=None,
        rules=None, max_expansions: int | None = None, time_budget: float | None = None,
        group: int = 6):
    """Returns dict(states, transitions, per_level, failures, samples, caps_hit, max_depth_completed)."""
    cfg = _cfg(cfg_ref)  # build templates in the parent
    checks = tuple(checks or ("C01", "C02", "C03", "C04", "C05", "C13"))
    t0 = time.time()
    st = _mk(cfg)
    seen = {st.canon()}
    failures = []
    try:
        # the initial state is a state too
        n0 = len(st.failures)
        st.observe(checks)
        failures = [f for f in st.failures[n0:] if not rules or any(f.rule.startswith(r) for r in rules)]
    finally:
        st.close()
    frontier = [[]]
    per_level = []
    transitions = 0
    caps = []
    samples = []
    completed = 0
    foreign = 0
    foreign_rules: dict = {}
    for level in range(1, depth + 1):
        units = []
        for h in frontier:
            evs = seeded_order(alphabet, seed + len(h))
            for i in range(0, len(evs), group):
                units.append((cfg_ref, h, evs[i : i + group], checks))
        units = seeded_order(units, seed)
        if max_expansions is not None and transitions + sum(len(u[2]) for u in units) > max_expansions:
            caps.append(f"level {level} not started: would exceed max_expansions={max_expansions}")
            break
        nxt = []
        new_states = 0
        aborted = False
        for hist, res in pmap(expand, units, jobs):
            for ev, canon, fails, steps in res:
                transitions += 1
                if fails:
                    # any oracle failure makes the state suspect: the history is not extended.
                    # Only this property's rules are reported; the others belong to the checks
                    # of their own properties (counted here so that the pruning is visible).
                    mine = [f for f in fails if not rules or any(f.rule.startswith(r) for r in rules)]
                    failures.extend(mine)
                    if not mine:
                        foreign += 1
                        for f in fails:
                            foreign_rules[f.rule] = foreign_rules.get(f.rule, 0) + 1
                    continue
                if canon not in seen:
                    seen.add(canon)
                    new_states += 1
                    nxt.append(hist + [ev])
                    if len(samples) < 3 and level >= min(depth, 3):
                        samples.append(hist + [ev])
            if time_budget is not None and time.time() - t0 > time_budget:
                aborted = True
                break
        per_level.append({"level": level, "frontier": len(frontier), "new_states": new_states})
        if aborted:
            caps.append(f"time budget {time_budget}s hit during level {level}")
            break
        completed = level
        frontier = sorted(nxt, key=lambda h: json.dumps(h, sort_keys=True))
        if not frontier:
            break
    if not samples and frontier:
        samples = frontier[:3]
    return {
        "states": len(seen),
        "transitions": transitions,
        "per_level": per_level,
        "failures": failures,
        "samples": samples or [[alphabet[0]]],
        "caps_hit": caps,
        "max_depth_completed": completed,
        "alphabet_size": len(alphabet),
        "pruned_by_other_properties_rules": foreign,
        "other_rules_seen": foreign_rules,
    }


def replay_history(cfg_ref, history: list[dict], checks=None) -> list:
    cfg = _cfg(cfg_ref)
    checks = tuple(checks or ("C01", "C02", "C03", "C04", "C05", "C13"))
    st = _mk(cfg)
    try:
        for e in history:
            st.apply(e)
        st.observe(checks)
        return list(st.failures)
    finally:
        st.close()
