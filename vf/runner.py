"""
Shared plumbing for every check: failure records, known-findings matching, replay files,
evidence files, the worker pool, and the command line of ./vcheck.
"""

from __future__ import annotations

import argparse
import hashlib
import importlib
import json
import multiprocessing as mp
import os
import random
import re
import subprocess
import sys
import time
import traceback
from dataclasses import asdict, dataclass, field
from typing import Any, Callable, Iterable

ROOT = os.path.dirname(os.path.dirname(os.path.abspath(__file__)))
KNOWN_FILE = os.path.join(ROOT, "known_findings.json")
MAX_REPLAYS_PER_RUN = 12


@dataclass
class Failure:
    property: str
    rule: str
    details: dict
    replay: dict
    expected: Any = None
    observed: Any = None
    transcript: list = field(default_factory=list)

    def signature(self) -> str:
        return self.rule + "|" + json.dumps(self.details, sort_keys=True, default=str)

    def size(self) -> int:
        return len(json.dumps(self.replay, default=str))


@dataclass
class Result:
    failures: list = field(default_factory=list)
    coverage: dict = field(default_factory=dict)
    assumptions: list = field(default_factory=list)
    level: str = "exploration"


# ------------------------------------------------------------------------------------------
# known findings
def load_known(prop: str | None = None) -> list[dict]:
    if not os.path.exists(KNOWN_FILE):
        return []
    with open(KNOWN_FILE) as f:
        ents = json.load(f)
    return [e for e in ents if prop is None or e.get("property") == prop]


def _match_value(pat, val) -> bool:
    if isinstance(pat, dict) and "re" in pat:
        return re.search(pat["re"], str(val)) is not None
    if isinstance(pat, dict) and "in" in pat:
        return val in pat["in"]
    return pat == val


def matches(entry: dict, f: Failure) -> bool:
    if entry.get("status") != "open":
        return False
    if entry.get("property") != f.property:
        return False
    if not _match_value(entry.get("rule"), f.rule):
        return False
    for k, pat in (entry.get("match") or {}).items():
        if k not in f.details or not _match_value(pat, f.details[k]):
            return False
    return True


def classify(prop: str, failures: list[Failure]):
    known_entries = load_known(prop)
    hits: dict[str, int] = {}
    unknown: list[Failure] = []
    for f in failures:
        for e in known_entries:
            if matches(e, f):
                hits[e["id"]] = hits.get(e["id"], 0) + 1
                break
        else:
            unknown.append(f)
    return known_entries, hits, unknown


# ------------------------------------------------------------------------------------------
# pool
_worker_fn: Callable | None = None


def _init_worker():
    from . import seams

    seams.install()


def _call(args):
    fn_mod, fn_name, item = args
    fn = getattr(importlib.import_module(fn_mod), fn_name)
    try:
        return ("ok", fn(item))
    except BaseException as e:  # noqa: B036
        return ("err", f"{type(e).__name__}: {e}\n{traceback.format_exc()}", item)


class HarnessError(RuntimeError):
    pass


def pmap(fn: Callable, items: list, jobs: int, chunksize: int = 1) -> Iterable:
    """Unordered parallel map over long-lived forked workers.  fn must be module-level."""
    if not items:
        return
    args = [(fn.__module__, fn.__name__, it) for it in items]
    if jobs <= 1 or len(items) == 1:
        _init_worker()
        for a in args:
            r = _call(a)
            if r[0] == "err":
                raise HarnessError(r[1])
            yield r[1]
        return
    ctx = mp.get_context("fork")
    with ctx.Pool(min(jobs, len(items)), initializer=_init_worker) as pool:
        for r in pool.imap_unordered(_call, args, chunksize):
            if r[0] == "err":
                pool.terminate()
                raise HarnessError(r[1])
            yield r[1]


def seeded_order(items: list, seed: int) -> list:
    items = list(items)
    if seed:
        random.Random(seed).shuffle(items)
    return items


# ------------------------------------------------------------------------------------------
# evidence / replays
def write_evidence(prop: str, tier: str, seed: int, res: Result, wall: float, nviol: int, extra: dict | None = None):
    if os.environ.get("VF_NO_EVIDENCE"):
        # runs against a deliberately broken tree (tools/seeded_eval.py) must not overwrite evidence
        return os.path.join(ROOT, "evidence", f"{prop}.json")
    os.makedirs(os.path.join(ROOT, "evidence"), exist_ok=True)
    cov = dict(res.coverage)
    if extra:
        cov.update(extra)
    ev = {
        "property_id": prop,
        "tier": tier,
        "seed": seed,
        "level": res.level,
        "coverage": cov,
        "assumptions": res.assumptions,
        "wall_s": round(wall, 2),
        "violations": nviol,
    }
    path = os.path.join(ROOT, "evidence", f"{prop}.json")
    tmp = path + f".tmp{os.getpid()}"
    with open(tmp, "w") as f:
        json.dump(ev, f, indent=1, default=str, sort_keys=True)
    os.replace(tmp, path)
    return path


def write_replay(f: Failure, seed: int) -> str:
    d = os.path.join(ROOT, "replays", f.property)
    os.makedirs(d, exist_ok=True)
    h = hashlib.sha256(f.signature().encode()).hexdigest()[:10]
    rule = re.sub(r"[^A-Za-z0-9_.-]", "_", f.rule)
    path = os.path.join(d, f"{rule}-{h}.json")
    rec = asdict(f)
    rec["seed"] = seed
    rec["asimap_src"] = os.environ.get("ASIMAP_SRC", "/repo")
    with open(path, "w") as fh:
        json.dump(rec, fh, indent=1, default=str)
    return os.path.relpath(path, ROOT)


def group_failures(failures: list[Failure]) -> list[Failure]:
    """One (smallest) witness per signature."""
    best: dict[str, Failure] = {}
    for f in failures:
        s = f.signature()
        if s not in best or f.size() < best[s].size():
            best[s] = f
    return sorted(best.values(), key=lambda f: (f.rule, f.size(), f.signature()))


# ------------------------------------------------------------------------------------------
def ensure_env():
    """Re-exec with a fixed hash seed so that set/dict iteration order is reproducible."""
    if os.environ.get("PYTHONHASHSEED") != "0":
        env = dict(os.environ)
        env["PYTHONHASHSEED"] = "0"
        os.execve(sys.executable, [sys.executable] + sys.argv, env)


def main(argv=None):
    ensure_env()
    ap = argparse.ArgumentParser(prog="vcheck")
    ap.add_argument("prop")
    ap.add_argument("--tier", default=os.environ.get("VERIF_TIER", "quick"), choices=["quick", "thorough"])
    ap.add_argument("--jobs", type=int, default=int(os.environ.get("VF_JOBS", "0")) or (os.cpu_count() or 4))
    ap.add_argument("--replay")
    ap.add_argument("--seed", type=int, default=int(os.environ.get("VERIF_SEED", "0") or 0))
    ap.add_argument("--no-recheck", action="store_true")
    args = ap.parse_args(argv)
    prop = args.prop.upper()
    sys.path.insert(0, ROOT)
    mod = importlib.import_module(f"vf.props.{prop.lower()}")

    if args.replay:
        with open(args.replay if os.path.isabs(args.replay) else os.path.join(ROOT, args.replay)) as f:
            rec = json.load(f)
        from . import seams

        seams.install()
        fails = mod.replay(rec)
        for f in fails:
            f.property = prop
        same = [f for f in fails if f.rule == rec["rule"]]
        print(json.dumps({"reproduced": bool(same), "rules": sorted({f.rule for f in fails})}))
        for f in same[:1]:
            print("expected:", json.dumps(f.expected, default=str)[:2000])
            print("observed:", json.dumps(f.observed, default=str)[:2000])
            for ln in f.transcript:
                print("  ", ln)
        if same:
            print(f"VIOLATION property={prop} replay={args.replay}")
            return 1
        return 0

    t0 = time.time()
    try:
        res: Result = mod.run(args.tier, args.seed, args.jobs)
    except HarnessError as e:
        print("HARNESS-ERROR", e)
        return 2
    wall = time.time() - t0
    for f in res.failures:
        f.property = prop
    known_entries, hits, unknown = classify(prop, res.failures)
    unknown = group_failures(unknown)
    rc = 0
    paths = []
    if os.environ.get("VF_DUMP_ALL"):  # triage aid: one witness per unknown signature, nothing else changes
        with open(os.environ["VF_DUMP_ALL"], "w") as fh:
            for f in unknown:
                fh.write(json.dumps(asdict(f), default=str) + "\n")
    for f in unknown[:MAX_REPLAYS_PER_RUN]:
        paths.append((f, write_replay(f, args.seed)))
    # determinism re-check of (a few) new violations in fresh processes
    if unknown and not args.no_recheck:
        for f, p in paths[:3]:
            outs = []
            for _ in range(2):
                cp = subprocess.run(
                    [os.path.join(ROOT, "vcheck"), prop, "--replay", p],
                    capture_output=True, text=True, cwd=ROOT,
                )
                outs.append(cp.stdout.splitlines()[0] if cp.stdout else cp.stderr[-300:])
            if outs[0] != outs[1] or '"reproduced": true' not in outs[0]:
                print(f"HARNESS-NONDETERMINISM property={prop} replay={p} runs={outs}")
                write_evidence(prop, args.tier, args.seed, res, wall, 0, {"harness_nondeterminism": p})
                return 2
    for f, p in paths:
        print(f"VIOLATION property={prop} replay={p} rule={f.rule} details={json.dumps(f.details, default=str)[:300]}")
        rc = 1
    if len(unknown) > len(paths):
        print(f"... and {len(unknown) - len(paths)} more distinct violation signatures (not written)")
    for e in known_entries:
        if e.get("status") == "open":
            print(f"KNOWN-FINDING: property={prop} {e['id']}: {e['what']} (witnesses this run: {hits.get(e['id'], 0)})")
    extra = {
        "known_findings_hit": hits,
        "violation_signatures": len(unknown),
    }
    ev = write_evidence(prop, args.tier, args.seed, res, wall, len(unknown), extra)
    cov = res.coverage
    summary = {k: cov[k] for k in cov if k not in ("samples",) and not isinstance(cov[k], (list, dict))}
    print(f"{prop} tier={args.tier} seed={args.seed} wall={wall:.1f}s {json.dumps(summary, default=str)} evidence={os.path.relpath(ev, ROOT)}")
    return rc
